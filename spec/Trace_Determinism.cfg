INIT TInit
NEXT TNext
CONSTRAINT HW
POSTCONDITION Report
