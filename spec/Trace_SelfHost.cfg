CONSTANT CheckedIn = "checkedin"
INIT TInit
NEXT TNext
INVARIANT Fixpoint
INVARIANT Functional
POSTCONDITION Accepted
