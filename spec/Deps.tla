-------------------------------- MODULE Deps --------------------------------
(* The dependency relation of a configuration and the four output-validation rules      *)
(* (scope, cycles, missing parameters, missing services).  Mirrors                      *)
(* output.BuildDependencyGraph + the runtime's graph: nodes are services, parameters,   *)
(* tags, "decorated by tag" and decorators.                                             *)
EXTENDS Config

Node(kind, n) == <<kind, n>>
SvcN(n) == Node("svc", n)
ParN(n) == Node("par", n)
TagN(t) == Node("tag", t)
DTagN(t) == Node("dtag", t)
DecN(i) == Node("dec", ToString(i))

(* Edges.  A service depends on the services / tags / parameters its arguments mention; *)
(* a tag leads to every service carrying it; a service carrying a tag leads, through    *)
(* "decorated by tag", to every decorator attached to that tag and on to its arguments. *)
Edges(cfg) ==
  LET S == SvcNames(cfg)
      D == 1..Len(cfg.decorators)
      P == ParNames(cfg)
  IN    UNION {{<<SvcN(s), SvcN(x)>> : x \in SvcSvcRefs(cfg.services[s])} : s \in S}
   \cup UNION {{<<SvcN(s), TagN(t)>> : t \in SvcTagRefs(cfg.services[s])} : s \in S}
   \cup UNION {{<<SvcN(s), ParN(p)>> : p \in SvcParRefs(cfg.services[s])} : s \in S}
   \cup UNION {{<<TagN(t), SvcN(s)>> : t \in SvcTags(cfg.services[s])} : s \in S}
   \cup UNION {{<<SvcN(s), DTagN(t)>> : t \in SvcTags(cfg.services[s])} : s \in S}
   \cup {<<DTagN(cfg.decorators[i].tag), DecN(i)>> : i \in D}
   \cup UNION {{<<DecN(i), SvcN(x)>> : x \in DecSvcRefs(cfg.decorators[i])} : i \in D}
   \cup UNION {{<<DecN(i), TagN(t)>> : t \in DecTagRefs(cfg.decorators[i])} : i \in D}
   \cup UNION {{<<DecN(i), ParN(p)>> : p \in DecParRefs(cfg.decorators[i])} : i \in D}
   \cup UNION {{<<ParN(p), ParN(q)>> : q \in ArgParRefs(cfg.params[p])} : p \in P}

Succ(E, n) == {e[2] : e \in {e2 \in E : e2[1] = n}}

RECURSIVE ReachFrom(_, _, _)
ReachFrom(E, frontier, seen) ==
  IF frontier = {} THEN seen
  ELSE LET nxt == UNION {Succ(E, n) : n \in frontier} \ seen
       IN ReachFrom(E, nxt, seen \cup nxt)

(* nodes reachable in one or more steps *)
Reach(E, n) == ReachFrom(E, Succ(E, n), Succ(E, n))

NodesOf(E) == {e[1] : e \in E} \cup {e[2] : e \in E}
OnCycle(E) == {n \in NodesOf(E) : n \in Reach(E, n)}
Cyclic(cfg) == OnCycle(Edges(cfg)) # {}

-----------------------------------------------------------------------------
(* Scope.  Declared scope, or by default contextual iff something reachable is declared *)
(* contextual, shared otherwise.                                                        *)
DeclScope(cfg, s) == cfg.services[s].scope
SvcReach(cfg, s) == {n[2] : n \in {m \in Reach(Edges(cfg), SvcN(s)) : m[1] = "svc"}} \cap SvcNames(cfg)

EffScope(cfg, s) ==
  IF IsSet(DeclScope(cfg, s)) THEN DeclScope(cfg, s)
  ELSE IF \E t \in SvcReach(cfg, s) : DeclScope(cfg, t) = "contextual" THEN "contextual" ELSE "shared"

ScopeViolations(cfg) ==
  {<<s, t>> \in SvcNames(cfg) \X SvcNames(cfg) :
      /\ DeclScope(cfg, s) = "shared"
      /\ DeclScope(cfg, t) = "contextual"
      /\ t \in SvcReach(cfg, s)}

-----------------------------------------------------------------------------
(* Dangling references: <<referrer, missing name>>.  Referrers are "%p%", "@s", "#i".    *)
MissingParams(cfg) ==
  LET P == ParNames(cfg) IN
        UNION {{<<"%" \o p \o "%", q>> : q \in ArgParRefs(cfg.params[p]) \ P} : p \in P}
   \cup UNION {{<<"@" \o s, q>> : q \in SvcParRefs(cfg.services[s]) \ P} : s \in SvcNames(cfg)}
   \cup UNION {{<<"#" \o ToString(i - 1), q>> : q \in DecParRefs(cfg.decorators[i]) \ P} : i \in 1..Len(cfg.decorators)}

MissingServices(cfg) ==
  LET S == SvcNames(cfg) IN
        UNION {{<<"@" \o s, x>> : x \in SvcSvcRefs(cfg.services[s]) \ S} : s \in S}
   \cup UNION {{<<"#" \o ToString(i - 1), x>> : x \in DecSvcRefs(cfg.decorators[i]) \ S} : i \in 1..Len(cfg.decorators)}

-----------------------------------------------------------------------------
(* The "Validate output" step: all four rules run; two of them are switchable.          *)
(* flags = [ignoreP, ignoreS]                                                           *)
OutputDiag(cfg, flags) ==
  [scope |-> ScopeViolations(cfg),
   cycle |-> OnCycle(Edges(cfg)),
   missP |-> IF flags.ignoreP THEN {} ELSE MissingParams(cfg),
   missS |-> IF flags.ignoreS THEN {} ELSE MissingServices(cfg)]

OutputAccepted(cfg, flags) ==
  LET d == OutputDiag(cfg, flags) IN d.scope = {} /\ d.cycle = {} /\ d.missP = {} /\ d.missS = {}
=============================================================================
