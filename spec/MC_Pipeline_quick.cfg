CONSTANT Family = "quick"
CONSTANT MaxErr = 1
INIT Init
NEXT Next
INVARIANT Emit
INVARIANT ExitIff
INVARIANT Untouched
INVARIANT ExitRange
INVARIANT CountMatch
INVARIANT OneFailLast
INVARIANT InOrder
INVARIANT WriteLast
INVARIANT RulesAllRun
