CONSTANTS Majors = {0, 1, 2}
 Minors = {0, 1, 9, 10}
 Patches = {0, 7}
 SuffixNames = {"none", "both"}
INIT Init
NEXT Next
INVARIANT Emit
INVARIANT PatchIrrelevant
