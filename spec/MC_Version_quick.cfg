CONSTANTS Majors = {0, 1, 2}
 Minors = {0, 1, 3}
 Patches = {0, 7}
 SuffixNames = {"none", "both"}
INIT Init
NEXT Next
INVARIANT Emit
INVARIANT PatchIrrelevant
