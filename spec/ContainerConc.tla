---------------------------- MODULE ContainerConc ----------------------------
(* Concurrent use of one generated container (C20): goroutines run Get / GetInContext /    *)
(* GetParam operations; the actions are the critical sections of the runtime as the        *)
(* generated code uses it (container_services.go get(), container_params.go getParam()):   *)
(*                                                                                         *)
(*   Begin      pick the next operation, enter the service / parameter                     *)
(*   Lock       acquire the per-service (shared, contextual) or per-parameter mutex        *)
(*   Check      look into the cache (container-wide, or the bag of the operation)          *)
(*   Dep        resolve the next dependency (pushes a frame: recursion under the lock)     *)
(*   Construct  call the constructor / evaluate the parameter (the fixture logs here)      *)
(*   Store      put the instance into the cache                                            *)
(*   Unlock     release the mutex and return to the caller frame                            *)
(*   Return     hand the result of the outermost frame to the caller (operation finished)   *)
(*                                                                                         *)
(* Mutexes are not re-entrant: a dependency cycle makes a goroutine wait for itself, which *)
(* TLC reports as a deadlock - the design-level reason why cycles must be rejected at      *)
(* build time (C07).                                                                       *)
EXTENDS Naturals, Sequences, FiniteSets, TLC

CONSTANTS G,            \* goroutines
          Svc,          \* service names
          Par,          \* parameter names
          ScopeOf,      \* Svc -> "shared" | "contextual" | "non_shared"   (effective scopes)
          DepsOf,       \* Svc \cup Par -> sequence of <<kind, name>> with kind in {"svc", "par"}
          Ops           \* G -> sequence of [op |-> "Get" | "GetInContext" | "GetParam", id, ctx]

VARIABLES pcs,          \* G -> index of the next operation
          stack,        \* G -> sequence of frames [kind, id, phase, dep]
          locks,        \* Svc \cup Par -> holder goroutine or 0 (free)
          shared,       \* Svc -> instance or 0
          bags,         \* bag key -> (Svc -> instance): one bag per context, one per plain Get
          pcache,       \* Par -> evaluated or not
          nextInst,     \* instance counter
          built,        \* Svc -> number of constructions of a SHARED service (must stay <= 1)
          evals,        \* Par -> number of successful evaluations
          owner,        \* instance -> bag key it was created for ("" for shared / non_shared)
          returned      \* set of [g, opIdx, inst] : what operations got back
cvars == <<pcs, stack, locks, shared, bags, pcache, nextInst, built, evals, owner, returned>>

Free == 0
Frame(kind, id) == [kind |-> kind, id |-> id, phase |-> "lock", dep |-> 1, inst |-> 0]

CurOp(g) == Ops[g][pcs[g]]
(* the bag an operation works with: its context, or a bag of its own *)
BagKey(g) == IF CurOp(g).op = "GetInContext" THEN "ctx" \o ToString(CurOp(g).ctx)
             ELSE "op" \o ToString(g) \o "-" \o ToString(pcs[g])
BagOf(k) == IF k \in DOMAIN bags THEN bags[k] ELSE [s \in {} |-> 0]

Top(g) == stack[g][Len(stack[g])]
SetTop(g, f) == [stack EXCEPT ![g] = [@ EXCEPT ![Len(@)] = f]]
Push(g, f) == [stack EXCEPT ![g] = Append(@, f)]
Pop(g) == [stack EXCEPT ![g] = SubSeq(@, 1, Len(@) - 1)]
Busy(g) == stack[g] # <<>>
NeedsLock(f) == f.kind = "par" \/ ScopeOf[f.id] \in {"shared", "contextual"}

CInit ==
  /\ pcs = [g \in G |-> 1] /\ stack = [g \in G |-> <<>>]
  /\ locks = [x \in Svc \cup Par |-> Free]
  /\ shared = [s \in Svc |-> 0] /\ bags = <<>> /\ pcache = [p \in Par |-> FALSE]
  /\ nextInst = 1 /\ built = [s \in Svc |-> 0] /\ evals = [p \in Par |-> 0]
  /\ owner = <<>> /\ returned = {}

Begin(g) ==
  /\ ~Busy(g) /\ pcs[g] <= Len(Ops[g])
  /\ stack' = Push(g, Frame(IF CurOp(g).op = "GetParam" THEN "par" ELSE "svc", CurOp(g).id))
  /\ UNCHANGED <<pcs, locks, shared, bags, pcache, nextInst, built, evals, owner, returned>>

Lock(g) ==
  /\ Busy(g) /\ Top(g).phase = "lock"
  /\ IF NeedsLock(Top(g))
     THEN locks[Top(g).id] = Free /\ locks' = [locks EXCEPT ![Top(g).id] = g]
     ELSE UNCHANGED locks
  /\ stack' = SetTop(g, [Top(g) EXCEPT !.phase = "check"])
  /\ UNCHANGED <<pcs, shared, bags, pcache, nextInst, built, evals, owner, returned>>

Cached(g) ==
  LET f == Top(g) IN
  IF f.kind = "par" THEN (IF pcache[f.id] THEN 1 ELSE 0)
  ELSE IF ScopeOf[f.id] = "shared" THEN shared[f.id]
  ELSE IF ScopeOf[f.id] = "contextual" THEN (IF f.id \in DOMAIN BagOf(BagKey(g)) THEN BagOf(BagKey(g))[f.id] ELSE 0)
  ELSE 0

Check(g) ==
  /\ Busy(g) /\ Top(g).phase = "check"
  /\ stack' = SetTop(g, IF Cached(g) # 0 THEN [Top(g) EXCEPT !.phase = "unlock", !.inst = Cached(g)]
                        ELSE [Top(g) EXCEPT !.phase = "deps"])
  /\ UNCHANGED <<pcs, locks, shared, bags, pcache, nextInst, built, evals, owner, returned>>

Dep(g) ==
  /\ Busy(g) /\ Top(g).phase = "deps"
  /\ LET f == Top(g)  ds == DepsOf[f.id] IN
     IF f.dep > Len(ds)
     THEN stack' = SetTop(g, [f EXCEPT !.phase = "build"])
     ELSE stack' = [stack EXCEPT ![g] = Append([@ EXCEPT ![Len(@)] = [f EXCEPT !.dep = f.dep + 1]],
                                               Frame(ds[f.dep][1], ds[f.dep][2]))]
  /\ UNCHANGED <<pcs, locks, shared, bags, pcache, nextInst, built, evals, owner, returned>>

Construct(g) ==
  /\ Busy(g) /\ Top(g).phase = "build"
  /\ LET f == Top(g) IN
     IF f.kind = "par"
     THEN /\ evals' = [evals EXCEPT ![f.id] = @ + 1]
          /\ stack' = SetTop(g, [f EXCEPT !.phase = "store", !.inst = 1])
          /\ UNCHANGED <<nextInst, built, owner>>
     ELSE /\ nextInst' = nextInst + 1
          /\ built' = [built EXCEPT ![f.id] = @ + 1]
          /\ owner' = [i \in (DOMAIN owner) \cup {nextInst} |->
                          IF i = nextInst THEN (IF ScopeOf[f.id] = "contextual" THEN BagKey(g) ELSE "") ELSE owner[i]]
          /\ stack' = SetTop(g, [f EXCEPT !.phase = "store", !.inst = nextInst])
          /\ UNCHANGED evals
  /\ UNCHANGED <<pcs, locks, shared, bags, pcache, returned>>

Store(g) ==
  /\ Busy(g) /\ Top(g).phase = "store"
  /\ LET f == Top(g) IN
     /\ IF f.kind = "par" THEN pcache' = [pcache EXCEPT ![f.id] = TRUE] /\ UNCHANGED <<shared, bags>>
        ELSE IF ScopeOf[f.id] = "shared" THEN shared' = [shared EXCEPT ![f.id] = f.inst] /\ UNCHANGED <<pcache, bags>>
        ELSE IF ScopeOf[f.id] = "contextual"
             THEN /\ bags' = [k \in (DOMAIN bags) \cup {BagKey(g)} |->
                                IF k = BagKey(g) THEN [s \in (DOMAIN BagOf(k)) \cup {f.id} |-> IF s = f.id THEN f.inst ELSE BagOf(k)[s]]
                                ELSE bags[k]]
                  /\ UNCHANGED <<pcache, shared>>
             ELSE UNCHANGED <<pcache, shared, bags>>
     /\ stack' = SetTop(g, [f EXCEPT !.phase = "unlock"])
  /\ UNCHANGED <<pcs, locks, nextInst, built, evals, owner, returned>>

(* the deferred Unlock runs before the result reaches the caller: releasing the mutex and returning are two steps *)
Unlock(g) ==
  /\ Busy(g) /\ Top(g).phase = "unlock"
  /\ LET f == Top(g) IN
     /\ locks' = IF NeedsLock(f) THEN [locks EXCEPT ![f.id] = Free] ELSE locks
     /\ stack' = IF Len(stack[g]) = 1 THEN SetTop(g, [f EXCEPT !.phase = "return"]) ELSE Pop(g)
  /\ UNCHANGED <<pcs, shared, bags, pcache, nextInst, built, evals, owner, returned>>

Return(g) ==
  /\ Busy(g) /\ Len(stack[g]) = 1 /\ Top(g).phase = "return"
  /\ LET f == Top(g) IN
     /\ returned' = returned \cup {[g |-> g, i |-> pcs[g], kind |-> f.kind, id |-> f.id, inst |-> f.inst, bag |-> BagKey(g)]}
     /\ pcs' = [pcs EXCEPT ![g] = @ + 1]
     /\ stack' = Pop(g)
  /\ UNCHANGED <<locks, shared, bags, pcache, nextInst, built, evals, owner>>

CNext == \E g \in G : Begin(g) \/ Lock(g) \/ Check(g) \/ Dep(g) \/ Construct(g) \/ Store(g) \/ Unlock(g) \/ Return(g)
AllDone == \A g \in G : ~Busy(g) /\ pcs[g] > Len(Ops[g])
CSpec == CInit /\ [][CNext]_cvars /\ WF_cvars(CNext)

-----------------------------------------------------------------------------
(* C20 *)
ConstructedOnce == \A s \in Svc : ScopeOf[s] = "shared" => built[s] <= 1
EvaluatedOnce   == \A p \in Par : evals[p] <= 1
(* an instance created for one bag (context) is never handed to an operation of another *)
ContextIsolation == \A r \in returned : (r.kind = "svc" /\ r.inst \in DOMAIN owner /\ owner[r.inst] # "") => owner[r.inst] = r.bag
(* operations on a shared service all see the one instance *)
SharedAgreed == \A r1, r2 \in returned : (r1.kind = "svc" /\ r2.kind = "svc" /\ r1.id = r2.id /\ ScopeOf[r1.id] = "shared") => r1.inst = r2.inst
MutualExclusion == \A g1, g2 \in G : (g1 # g2 /\ Busy(g1) /\ Busy(g2)) =>
    \A i \in 1..Len(stack[g1]), j \in 1..Len(stack[g2]) :
       ~(stack[g1][i].id = stack[g2][j].id /\ stack[g1][i].kind = stack[g2][j].kind
         /\ NeedsLock(stack[g1][i]) /\ stack[g1][i].phase \in {"check", "deps", "build", "store", "unlock"}
         /\ stack[g2][j].phase \in {"check", "deps", "build", "store", "unlock"})
(* with an acyclic dependency relation every run terminates (checked as absence of deadlock *)
(* before AllDone)                                                                         *)
NoDeadlock == AllDone \/ ENABLED CNext
=============================================================================
