-------------------------- MODULE Trace_Determinism --------------------------
EXTENDS Determinism, Json
VARIABLE l
Trace == ndJsonDeserialize("trace.ndjson")
TInit == DInit /\ l = 1 /\ TLCSet(1, 0)
TNext ==
  /\ l <= Len(Trace)
  /\ LET e == Trace[l] IN
       \/ e.ev = "run"  /\ Run(e.c, e.out, e.report, e.exit)
       \/ e.ev = "perm" /\ Perm(e.c, e.out, e.exit)
  /\ l' = l + 1
HW == IF l > TLCGet(1) THEN TLCSet(1, l) ELSE TRUE
Report == PrintT(<<"HW", TLCGet(1), Len(Trace)>>)
=============================================================================
