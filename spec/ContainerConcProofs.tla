------------------------ MODULE ContainerConcProofs ------------------------
(* Machine-checked (TLAPS) proofs that mutual exclusion, "a shared service is constructed   *)
(* at most once", "a parameter is evaluated at most once" and "a contextual instance is      *)
(* never handed to another context" (C20) are invariants of ContainerConc for EVERY set of  *)
(* goroutines, services, parameters, dependency relation and operation scripts - the        *)
(* unbounded counterpart of what TLC checks on the instances of MC_ContainerConc (theorems  *)
(* MutexAlways, ConstructedOnceAlways, EvaluatedOnceAlways, ContextIsolationAlways and      *)
(* SharedAgreedAlways at the end of the module).  The first inductive invariant says: a frame that is inside its     *)
(* critical section (phases check .. unlock of an entry that needs a lock) belongs to the   *)
(* goroutine the lock table names, and no goroutine has two such frames for one entry.      *)
EXTENDS ContainerConc, SequenceTheorems, TLAPS

Keys == Svc \cup Par
Phases == {"lock", "check", "deps", "build", "store", "unlock", "return"}
HeldPhases == {"check", "deps", "build", "store", "unlock"}
Held(f) == NeedsLock(f) /\ f.phase \in HeldPhases

FrameT == {f \in [kind : {"svc", "par"}, id : Keys, phase : Phases, dep : Nat \ {0}, inst : Nat] :
              /\ f.kind = "svc" => f.id \in Svc
              /\ f.kind = "par" => f.id \in Par}

ASSUME ConstAssump ==
  /\ G \subseteq Nat \ {0}                                      \* Free = 0 is not a goroutine
  /\ Ops \in [G -> Seq([op : {"Get", "GetInContext", "GetParam"}, id : Keys, ctx : Nat])]
  /\ \A g \in G : \A i \in 1..Len(Ops[g]) :
        /\ Ops[g][i].op = "GetParam" => Ops[g][i].id \in Par
        /\ Ops[g][i].op # "GetParam" => Ops[g][i].id \in Svc
  /\ DepsOf \in [Keys -> Seq({"svc", "par"} \X Keys)]
  /\ \A x \in Keys : \A i \in 1..Len(DepsOf[x]) :
        /\ DepsOf[x][i][1] = "svc" => DepsOf[x][i][2] \in Svc
        /\ DepsOf[x][i][1] = "par" => DepsOf[x][i][2] \in Par

BagsOK == \A k \in DOMAIN bags : \A s \in DOMAIN bags[k] : bags[k][s] \in Nat

TypeOK ==
  /\ pcs \in [G -> Nat \ {0}]
  /\ stack \in [G -> Seq(FrameT)]
  /\ locks \in [Keys -> G \cup {Free}]
  /\ shared \in [Svc -> Nat]
  /\ pcache \in [Par -> BOOLEAN]
  /\ nextInst \in Nat \ {0}
  /\ built \in [Svc -> Nat]
  /\ BagsOK

LockInv == \A g \in G : \A i \in 1..Len(stack[g]) : Held(stack[g][i]) => locks[stack[g][i].id] = g
NoDup   == \A g \in G : \A i, j \in 1..Len(stack[g]) :
              (i # j /\ Held(stack[g][i]) /\ Held(stack[g][j])) => stack[g][i].id # stack[g][j].id

Inv == TypeOK /\ LockInv /\ NoDup

-----------------------------------------------------------------------------
LEMMA FrameTyped == ASSUME NEW k \in {"svc", "par"}, NEW x \in Keys, k = "svc" => x \in Svc, k = "par" => x \in Par
                    PROVE  Frame(k, x) \in FrameT /\ ~Held(Frame(k, x))
  BY DEF Frame, FrameT, Phases, Held, HeldPhases, NeedsLock

LEMMA InitInv == CInit => Inv
  <1> SUFFICES ASSUME CInit PROVE Inv
    OBVIOUS
  <1>1. TypeOK
    <2>1. pcs \in [G -> Nat \ {0}] /\ locks \in [Keys -> G \cup {Free}] /\ shared \in [Svc -> Nat] /\ pcache \in [Par -> BOOLEAN] /\ nextInst \in Nat \ {0} /\ built \in [Svc -> Nat]
      BY DEF CInit, Keys, Free
    <2>2. stack \in [G -> Seq(FrameT)]
      <3>1. <<>> \in Seq(FrameT)
        BY EmptySeq
      <3> QED BY <3>1 DEF CInit
    <2>3. BagsOK
      <3>1. DOMAIN bags = {}
        BY DEF CInit
      <3> QED BY <3>1 DEF BagsOK
    <2> QED BY <2>1, <2>2, <2>3 DEF TypeOK
  <1>2. LockInv /\ NoDup
    BY DEF CInit, LockInv, NoDup
  <1> QED BY <1>1, <1>2 DEF Inv

(* what every action does to a stack: the frames below the top keep kind, id and phase *)
LEMMA CachedNat == ASSUME TypeOK, NEW g \in G, Busy(g) PROVE Cached(g) \in Nat
  <1> DEFINE f == Top(g)
  <1>1. f \in FrameT
    BY DEF TypeOK, Busy, Top, FrameT
  <1>2. CASE f.kind = "par"
    BY <1>1, <1>2 DEF Cached, TypeOK, FrameT
  <1>3. CASE f.kind = "svc"
    <2>1. f.id \in Svc
      BY <1>1, <1>3 DEF FrameT
    <2>2. shared[f.id] \in Nat
      BY <2>1 DEF TypeOK
    <2>3. ASSUME f.id \in DOMAIN BagOf(BagKey(g)) PROVE BagOf(BagKey(g))[f.id] \in Nat
      BY <2>3 DEF BagOf, TypeOK, BagsOK
    <2> QED BY <1>3, <2>2, <2>3 DEF Cached
  <1> QED BY <1>1, <1>2, <1>3 DEF FrameT

-----------------------------------------------------------------------------
(* the three ways an action changes the stack of one goroutine *)
LEMMA BusyLen == ASSUME TypeOK, NEW g \in G, Busy(g)
                 PROVE  /\ stack[g] \in Seq(FrameT) /\ Len(stack[g]) \in Nat \ {0}
                        /\ Top(g) \in FrameT /\ Top(g) = stack[g][Len(stack[g])]
  <1>1. stack[g] \in Seq(FrameT) /\ stack[g] # <<>>
    BY DEF TypeOK, Busy
  <1>2. Len(stack[g]) \in Nat \ {0}
    BY <1>1, EmptySeq, LenProperties
  <1>3. stack[g][Len(stack[g])] \in FrameT
    BY <1>1, <1>2, ElementOfSeq
  <1> QED BY <1>1, <1>2, <1>3 DEF Top

LEMMA SetTopProps == ASSUME TypeOK, NEW g \in G, Busy(g), NEW f2 \in FrameT
                     PROVE  /\ SetTop(g, f2) \in [G -> Seq(FrameT)]
                            /\ \A h \in G : h # g => SetTop(g, f2)[h] = stack[h]
                            /\ Len(SetTop(g, f2)[g]) = Len(stack[g])
                            /\ \A i \in 1..Len(stack[g]) : i # Len(stack[g]) => SetTop(g, f2)[g][i] = stack[g][i]
                            /\ SetTop(g, f2)[g][Len(stack[g])] = f2
  <1> DEFINE s == stack[g]
             n == Len(s)
  <1>1. s \in Seq(FrameT) /\ n \in Nat \ {0}
    BY BusyLen
  <1>2. [s EXCEPT ![n] = f2] \in Seq(FrameT) /\ Len([s EXCEPT ![n] = f2]) = n
    BY <1>1, ExceptSeq
  <1>3. \A i \in 1..n : [s EXCEPT ![n] = f2][i] = IF i = n THEN f2 ELSE s[i]
    BY <1>1, ExceptSeq
  <1>4. stack \in [G -> Seq(FrameT)]
    BY DEF TypeOK
  <1> QED BY <1>1, <1>2, <1>3, <1>4 DEF SetTop

LEMMA PushProps == ASSUME TypeOK, NEW g \in G, NEW f2 \in FrameT
                   PROVE  /\ Push(g, f2) \in [G -> Seq(FrameT)]
                          /\ \A h \in G : h # g => Push(g, f2)[h] = stack[h]
                          /\ Len(Push(g, f2)[g]) = Len(stack[g]) + 1
                          /\ \A i \in 1..Len(stack[g]) : Push(g, f2)[g][i] = stack[g][i]
                          /\ Push(g, f2)[g][Len(stack[g]) + 1] = f2
  <1> DEFINE s == stack[g]
  <1>1. s \in Seq(FrameT) /\ stack \in [G -> Seq(FrameT)]
    BY DEF TypeOK
  <1>2. Append(s, f2) \in Seq(FrameT) /\ Len(Append(s, f2)) = Len(s) + 1
        /\ \A i \in 1..Len(s) : Append(s, f2)[i] = s[i]
        /\ Append(s, f2)[Len(s) + 1] = f2
    BY <1>1, AppendProperties
  <1> QED BY <1>1, <1>2 DEF Push

LEMMA PopProps == ASSUME TypeOK, NEW g \in G, Busy(g)
                  PROVE  /\ Pop(g) \in [G -> Seq(FrameT)]
                         /\ \A h \in G : h # g => Pop(g)[h] = stack[h]
                         /\ Len(Pop(g)[g]) = Len(stack[g]) - 1
                         /\ \A i \in 1..(Len(stack[g]) - 1) : Pop(g)[g][i] = stack[g][i]
  <1> DEFINE s == stack[g]
             n == Len(s)
  <1>1. s \in Seq(FrameT) /\ n \in Nat \ {0} /\ stack \in [G -> Seq(FrameT)]
    BY BusyLen DEF TypeOK
  <1>2. SubSeq(s, 1, n - 1) \in Seq(FrameT) /\ Len(SubSeq(s, 1, n - 1)) = n - 1
        /\ \A i \in 1..(n - 1) : SubSeq(s, 1, n - 1)[i] = s[i]
    <2>1. 1 \in 1..(n + 1) /\ (n - 1) \in (1 - 1)..n
      BY <1>1
    <2>2. SubSeq(s, 1, n - 1) \in Seq(FrameT)
      BY <1>1, <2>1, SubSeqProperties
    <2>3. Len(SubSeq(s, 1, n - 1)) = (n - 1) - 1 + 1
      BY <1>1, <2>1, SubSeqProperties
    <2>4. \A i \in 1..((n - 1) - 1 + 1) : SubSeq(s, 1, n - 1)[i] = s[1 + i - 1]
      BY <1>1, <2>1, SubSeqProperties
    <2> QED BY <1>1, <2>2, <2>3, <2>4
  <1> QED BY <1>1, <1>2 DEF Pop

-----------------------------------------------------------------------------
(* only the top frame of the acting goroutine changes; its kind and id never change *)
LEMMA HeldOnlyKindIdPhase == ASSUME NEW f1, NEW f2, f1.kind = f2.kind, f1.id = f2.id, f1.phase = f2.phase
                             PROVE  Held(f1) <=> Held(f2)
  BY DEF Held, NeedsLock

(* a step that replaces the top frame by one of the same kind and id, held iff the old one was, and leaves the locks alone *)
LEMMA RetopKeeps ==
  ASSUME Inv, NEW g \in G, Busy(g), NEW f2 \in FrameT,
         f2.kind = Top(g).kind, f2.id = Top(g).id, Held(f2) <=> Held(Top(g)),
         stack' = SetTop(g, f2), locks' = locks
  PROVE  stack' \in [G -> Seq(FrameT)] /\ LockInv' /\ NoDup'
  <1> DEFINE n == Len(stack[g])
  <1>1. TypeOK /\ LockInv /\ NoDup
    BY DEF Inv
  <1>2. /\ stack' \in [G -> Seq(FrameT)]
        /\ \A h \in G : h # g => stack'[h] = stack[h]
        /\ Len(stack'[g]) = n
        /\ \A i \in 1..n : i # n => stack'[g][i] = stack[g][i]
        /\ stack'[g][n] = f2
    BY <1>1, SetTopProps
  <1>3. n \in Nat \ {0} /\ Top(g) = stack[g][n]
    BY <1>1, BusyLen
  <1>4. \A h \in G : \A i \in 1..Len(stack'[h]) :
           /\ i \in 1..Len(stack[h])
           /\ stack'[h][i].id = stack[h][i].id
           /\ Held(stack'[h][i]) <=> Held(stack[h][i])
    BY <1>2, <1>3
  <1>5. LockInv'
    BY <1>1, <1>4 DEF LockInv
  <1>6. NoDup'
    BY <1>1, <1>4, <1>2 DEF NoDup
  <1> QED BY <1>2, <1>5, <1>6

LEMMA BeginInv == ASSUME Inv, NEW g \in G, Begin(g) PROVE Inv'
  <1>1. TypeOK /\ LockInv /\ NoDup
    BY DEF Inv
  <1> DEFINE o == CurOp(g)
             k == IF o.op = "GetParam" THEN "par" ELSE "svc"
             fr == Frame(k, o.id)
  <1>2. pcs[g] \in 1..Len(Ops[g])
    BY <1>1 DEF Begin, TypeOK
  <1>3. o.id \in Keys /\ (k = "svc" => o.id \in Svc) /\ (k = "par" => o.id \in Par)
    BY <1>2, ConstAssump DEF CurOp
  <1>4. fr \in FrameT /\ ~Held(fr)
    BY <1>3, FrameTyped
  <1>5. stack' = Push(g, fr)
    BY DEF Begin
  <1>6. /\ stack' \in [G -> Seq(FrameT)]
        /\ \A h \in G : h # g => stack'[h] = stack[h]
        /\ Len(stack'[g]) = Len(stack[g]) + 1
        /\ \A i \in 1..Len(stack[g]) : stack'[g][i] = stack[g][i]
        /\ stack'[g][Len(stack[g]) + 1] = fr
    BY <1>1, <1>4, <1>5, PushProps
  <1>7. Len(stack[g]) \in Nat
    BY <1>1, LenProperties DEF TypeOK
  <1>8. UNCHANGED <<pcs, locks, shared, bags, pcache, nextInst, built>>
    BY DEF Begin
  <1>9. TypeOK'
    BY <1>1, <1>6, <1>8 DEF TypeOK, BagsOK
  <1>10. LockInv'
    BY <1>1, <1>4, <1>6, <1>7, <1>8 DEF LockInv
  <1>11. NoDup'
    BY <1>1, <1>4, <1>6, <1>7 DEF NoDup
  <1> QED BY <1>9, <1>10, <1>11 DEF Inv

LEMMA CheckInv == ASSUME Inv, NEW g \in G, Check(g) PROVE Inv'
  <1>1. TypeOK /\ Busy(g) /\ Top(g).phase = "check"
    BY DEF Inv, Check
  <1>2. Top(g) \in FrameT /\ Cached(g) \in Nat
    BY <1>1, BusyLen, CachedNat
  <1> DEFINE f2 == IF Cached(g) # 0 THEN [Top(g) EXCEPT !.phase = "unlock", !.inst = Cached(g)] ELSE [Top(g) EXCEPT !.phase = "deps"]
  <1>3. f2 \in FrameT /\ f2.kind = Top(g).kind /\ f2.id = Top(g).id /\ (Held(f2) <=> Held(Top(g)))
    BY <1>1, <1>2 DEF FrameT, Phases, Held, HeldPhases, NeedsLock
  <1>4. stack' = SetTop(g, f2) /\ UNCHANGED <<pcs, locks, shared, bags, pcache, nextInst, built>>
    BY DEF Check
  <1>5. stack' \in [G -> Seq(FrameT)] /\ LockInv' /\ NoDup'
    BY <1>1, <1>3, <1>4, RetopKeeps
  <1>6. TypeOK'
    BY <1>1, <1>4, <1>5 DEF TypeOK, BagsOK
  <1> QED BY <1>5, <1>6 DEF Inv

LEMMA ConstructInv == ASSUME Inv, NEW g \in G, Construct(g) PROVE Inv'
  <1>1. TypeOK /\ Busy(g) /\ Top(g).phase = "build"
    BY DEF Inv, Construct
  <1>2. Top(g) \in FrameT /\ nextInst \in Nat \ {0} /\ built \in [Svc -> Nat]
    BY <1>1, BusyLen DEF TypeOK
  <1> DEFINE f2 == IF Top(g).kind = "par" THEN [Top(g) EXCEPT !.phase = "store", !.inst = 1]
                                         ELSE [Top(g) EXCEPT !.phase = "store", !.inst = nextInst]
  <1>3. f2 \in FrameT /\ f2.kind = Top(g).kind /\ f2.id = Top(g).id /\ (Held(f2) <=> Held(Top(g)))
    BY <1>1, <1>2 DEF FrameT, Phases, Held, HeldPhases, NeedsLock
  <1>4. stack' = SetTop(g, f2) /\ UNCHANGED <<pcs, locks, shared, bags, pcache>> /\ nextInst' \in Nat \ {0} /\ built' \in [Svc -> Nat]
    <2>1. CASE Top(g).kind = "par"
      BY <1>2, <2>1 DEF Construct
    <2>2. CASE Top(g).kind # "par"
      <3>1. Top(g).id \in Svc
        BY <1>2, <2>2 DEF FrameT
      <3> QED BY <1>2, <2>2, <3>1 DEF Construct
    <2> QED BY <2>1, <2>2
  <1>5. stack' \in [G -> Seq(FrameT)] /\ LockInv' /\ NoDup'
    BY <1>1, <1>3, <1>4, RetopKeeps
  <1>6. TypeOK'
    BY <1>1, <1>4, <1>5 DEF TypeOK, BagsOK
  <1> QED BY <1>5, <1>6 DEF Inv

LEMMA StoreInv == ASSUME Inv, NEW g \in G, Store(g) PROVE Inv'
  <1>1. TypeOK /\ Busy(g) /\ Top(g).phase = "store"
    BY DEF Inv, Store
  <1>2. Top(g) \in FrameT
    BY <1>1, BusyLen
  <1> DEFINE f == Top(g)
             f2 == [f EXCEPT !.phase = "unlock"]
  <1>3. f2 \in FrameT /\ f2.kind = f.kind /\ f2.id = f.id /\ (Held(f2) <=> Held(f))
    BY <1>1, <1>2 DEF FrameT, Phases, Held, HeldPhases, NeedsLock
  <1>4. stack' = SetTop(g, f2) /\ UNCHANGED <<pcs, locks, nextInst, built>>
    BY DEF Store
  <1>5. stack' \in [G -> Seq(FrameT)] /\ LockInv' /\ NoDup'
    BY <1>1, <1>3, <1>4, RetopKeeps
  <1>6. shared' \in [Svc -> Nat] /\ pcache' \in [Par -> BOOLEAN] /\ BagsOK'
    <2>1. CASE f.kind = "par"
      BY <1>1, <1>2, <2>1 DEF Store, TypeOK, FrameT, BagsOK
    <2>2. CASE f.kind # "par" /\ ScopeOf[f.id] = "shared"
      BY <1>1, <1>2, <2>2 DEF Store, TypeOK, FrameT, BagsOK
    <2>3. CASE f.kind # "par" /\ ScopeOf[f.id] # "shared" /\ ScopeOf[f.id] # "contextual"
      BY <1>1, <2>3 DEF Store, TypeOK, BagsOK
    <2>4. CASE f.kind # "par" /\ ScopeOf[f.id] # "shared" /\ ScopeOf[f.id] = "contextual"
      <3> DEFINE key == BagKey(g)
      <3>1. /\ bags' = [k \in (DOMAIN bags) \cup {key} |->
                          IF k = key THEN [s \in (DOMAIN BagOf(k)) \cup {f.id} |-> IF s = f.id THEN f.inst ELSE BagOf(k)[s]]
                          ELSE bags[k]]
            /\ UNCHANGED <<pcache, shared>>
        BY <2>4 DEF Store
      <3>2. f.inst \in Nat
        BY <1>2 DEF FrameT
      <3>3. \A k \in DOMAIN bags : \A x \in DOMAIN bags[k] : bags[k][x] \in Nat
        BY <1>1 DEF TypeOK, BagsOK
      <3>4. \A x \in DOMAIN BagOf(key) : BagOf(key)[x] \in Nat
        BY <3>3 DEF BagOf
      <3>5. BagsOK'
        BY <3>1, <3>2, <3>3, <3>4 DEF BagsOK
      <3> QED BY <1>1, <3>1, <3>5 DEF TypeOK
    <2> QED BY <2>1, <2>2, <2>3, <2>4
  <1>7. TypeOK'
    BY <1>1, <1>4, <1>5, <1>6 DEF TypeOK
  <1> QED BY <1>5, <1>7 DEF Inv

LEMMA LockActInv == ASSUME Inv, NEW g \in G, Lock(g) PROVE Inv'
  <1>1. TypeOK /\ LockInv /\ NoDup /\ Busy(g) /\ Top(g).phase = "lock"
    BY DEF Inv, Lock
  <1> DEFINE f == Top(g)
             n == Len(stack[g])
             f2 == [f EXCEPT !.phase = "check"]
  <1>2. f \in FrameT /\ n \in Nat \ {0} /\ f = stack[g][n]
    BY <1>1, BusyLen
  <1>3. f2 \in FrameT /\ f2.id = f.id /\ (Held(f2) <=> NeedsLock(f)) /\ ~Held(f)
    BY <1>1, <1>2 DEF FrameT, Phases, Held, HeldPhases, NeedsLock
  <1>4. stack' = SetTop(g, f2) /\ UNCHANGED <<pcs, shared, bags, pcache, nextInst, built>>
    BY DEF Lock
  <1>5. /\ stack' \in [G -> Seq(FrameT)]
        /\ \A h \in G : h # g => stack'[h] = stack[h]
        /\ Len(stack'[g]) = n
        /\ \A i \in 1..n : i # n => stack'[g][i] = stack[g][i]
        /\ stack'[g][n] = f2
    BY <1>1, <1>3, <1>4, SetTopProps
  <1>6. f.id \in Keys /\ locks \in [Keys -> G \cup {Free}] /\ Free \notin G
    BY <1>1, <1>2, ConstAssump DEF FrameT, TypeOK, Free
  <1>7. CASE NeedsLock(f)
    <2>1. locks[f.id] = Free /\ locks' = [locks EXCEPT ![f.id] = g]
      BY <1>7 DEF Lock
    <2>2. locks' \in [Keys -> G \cup {Free}] /\ locks'[f.id] = g /\ \A x \in Keys : x # f.id => locks'[x] = locks[x]
      BY <1>6, <2>1
    (* nobody is inside the critical section of this entry: its lock is free *)
    <2>3. \A h \in G : \A i \in 1..Len(stack[h]) : Held(stack[h][i]) => stack[h][i].id # f.id
      BY <1>1, <1>6, <2>1 DEF LockInv
    <2>4. \A h \in G : \A i \in 1..Len(stack[h]) : stack[h][i].id \in Keys
      <3>1. \A h \in G : stack[h] \in Seq(FrameT)
        BY <1>1 DEF TypeOK
      <3>2. \A h \in G : \A i \in 1..Len(stack[h]) : stack[h][i] \in FrameT
        BY <3>1, ElementOfSeq
      <3> QED BY <3>2 DEF FrameT
    <2>5. LockInv'
      <3> SUFFICES ASSUME NEW h \in G, NEW i \in 1..Len(stack'[h]), Held(stack'[h][i]) PROVE locks'[stack'[h][i].id] = h
        BY DEF LockInv
      <3>1. CASE h = g /\ i = n
        BY <3>1, <1>5, <1>3, <2>2
      <3>2. CASE ~(h = g /\ i = n)
        <4>1. i \in 1..Len(stack[h]) /\ stack'[h][i] = stack[h][i]
          BY <3>2, <1>5, <1>2
        <4>2. locks[stack[h][i].id] = h /\ stack[h][i].id # f.id /\ stack[h][i].id \in Keys
          BY <4>1, <1>1, <2>3, <2>4 DEF LockInv
        <4> QED BY <4>1, <4>2, <2>2
      <3> QED BY <3>1, <3>2
    <2>6. NoDup'
      <3> SUFFICES ASSUME NEW h \in G, NEW i \in 1..Len(stack'[h]), NEW j \in 1..Len(stack'[h]), i # j,
                          Held(stack'[h][i]), Held(stack'[h][j])
                   PROVE  stack'[h][i].id # stack'[h][j].id
        BY DEF NoDup
      <3>1. CASE h # g
        BY <3>1, <1>5, <1>1 DEF NoDup
      <3>2. CASE h = g /\ i # n /\ j # n
        BY <3>2, <1>5, <1>1, <1>2 DEF NoDup
      <3>3. CASE h = g /\ i = n
        <4>1. j \in 1..Len(stack[g]) /\ stack'[g][j] = stack[g][j] /\ stack'[g][i] = f2
          BY <3>3, <1>5, <1>2
        <4> QED BY <4>1, <3>3, <2>3, <1>3
      <3>4. CASE h = g /\ j = n
        <4>1. i \in 1..Len(stack[g]) /\ stack'[g][i] = stack[g][i] /\ stack'[g][j] = f2
          BY <3>4, <1>5, <1>2
        <4> QED BY <4>1, <3>4, <2>3, <1>3
      <3> QED BY <3>1, <3>2, <3>3, <3>4
    <2>7. TypeOK'
      BY <1>1, <1>4, <1>5, <2>2 DEF TypeOK, BagsOK
    <2> QED BY <2>5, <2>6, <2>7 DEF Inv
  <1>8. CASE ~NeedsLock(f)
    <2>1. locks' = locks
      BY <1>8 DEF Lock
    <2>2. f2.kind = f.kind /\ (Held(f2) <=> Held(f))
      BY <1>8, <1>3, <1>2 DEF FrameT
    <2>3. stack' \in [G -> Seq(FrameT)] /\ LockInv' /\ NoDup'
      BY <1>1, <1>3, <1>4, <2>1, <2>2, RetopKeeps DEF Inv
    <2>4. TypeOK'
      BY <1>1, <1>4, <2>1, <2>3 DEF TypeOK, BagsOK
    <2> QED BY <2>3, <2>4 DEF Inv
  <1> QED BY <1>7, <1>8

-----------------------------------------------------------------------------
(* C20, second clause: a shared service is constructed at most once.                        *)
(* built[s] counts constructions; the invariant ties it to where the one goroutine that may  *)
(* be inside the critical section of s stands: before Construct (deps, build: "early")       *)
(* nothing was built and nothing is cached; between Construct and Store ("store") one was     *)
(* built and it is not cached yet; otherwise built[s] = 1 exactly when an instance is cached. *)
IsSvcFrame(fr, s) == fr.kind = "svc" /\ fr.id = s
Cls(fr, s) == IF IsSvcFrame(fr, s) /\ fr.phase \in {"deps", "build"} THEN "early"
              ELSE IF IsSvcFrame(fr, s) /\ fr.phase = "store" THEN "store" ELSE "none"
OnceFor(s) ==
  /\ built[s] \in {0, 1}
  /\ shared[s] # 0 => built[s] = 1
  /\ \A g \in G : \A i \in 1..Len(stack[g]) :
        /\ Cls(stack[g][i], s) = "early" => (built[s] = 0 /\ shared[s] = 0)
        /\ Cls(stack[g][i], s) = "store" => (built[s] = 1 /\ shared[s] = 0 /\ stack[g][i].inst # 0)
  /\ (built[s] = 1 /\ shared[s] = 0) => \E g \in G : \E i \in 1..Len(stack[g]) : Cls(stack[g][i], s) = "store"
OnceInv == \A s \in Svc : ScopeOf[s] = "shared" => OnceFor(s)

THEOREM OnceImplies == OnceInv => ConstructedOnce
  BY DEF OnceInv, OnceFor, ConstructedOnce

LEMMA InitOnce == CInit => OnceInv
  BY DEF CInit, OnceInv, OnceFor

(* two frames inside the critical section of one entry are the same frame *)
LEMMA HeldUnique == ASSUME Inv, NEW g1 \in G, NEW g2 \in G, NEW i \in 1..Len(stack[g1]), NEW j \in 1..Len(stack[g2]),
                           Held(stack[g1][i]), Held(stack[g2][j]), stack[g1][i].id = stack[g2][j].id
                    PROVE  g1 = g2 /\ i = j
  <1>1. locks[stack[g1][i].id] = g1 /\ locks[stack[g2][j].id] = g2
    BY DEF Inv, LockInv
  <1>2. g1 = g2
    BY <1>1
  <1> QED BY <1>2 DEF Inv, NoDup

LEMMA SharedFrameHeld == ASSUME NEW s \in Svc, ScopeOf[s] = "shared", NEW fr, IsSvcFrame(fr, s), fr.phase \in HeldPhases
                         PROVE  Held(fr)
  BY DEF Held, NeedsLock, IsSvcFrame

(* while a goroutine stands in the critical section of the shared service s with frame (g, n), no other frame of s is in   *)
(* deps / build / store                                                                                                    *)
LEMMA OnlyOneInside ==
  ASSUME Inv, NEW s \in Svc, ScopeOf[s] = "shared", NEW g \in G, NEW n \in 1..Len(stack[g]),
         IsSvcFrame(stack[g][n], s), stack[g][n].phase \in HeldPhases,
         NEW h \in G, NEW i \in 1..Len(stack[h]), ~(h = g /\ i = n)
  PROVE  Cls(stack[h][i], s) = "none"
  <1> SUFFICES ASSUME Cls(stack[h][i], s) # "none" PROVE FALSE
    OBVIOUS
  <1>1. IsSvcFrame(stack[h][i], s) /\ stack[h][i].phase \in HeldPhases
    BY DEF Cls, HeldPhases
  <1>2. Held(stack[h][i]) /\ Held(stack[g][n]) /\ stack[h][i].id = stack[g][n].id
    BY <1>1, SharedFrameHeld DEF IsSvcFrame
  <1> QED BY <1>2, HeldUnique

(* how one step changes the stacks: every frame but the acting goroutine's top is kept; the new stacks consist of kept frames, *)
(* possibly a new top f2 at the same position, possibly one new frame in phase "lock" above it                                 *)
Shape(g, f2) ==
  /\ \A h \in G : \A i \in 1..Len(stack[h]) : ~(h = g /\ i = Len(stack[g])) => (i \in 1..Len(stack'[h]) /\ stack'[h][i] = stack[h][i])
  /\ \A h \in G : \A i \in 1..Len(stack'[h]) :
        \/ (i \in 1..Len(stack[h]) /\ ~(h = g /\ i = Len(stack[g])) /\ stack'[h][i] = stack[h][i])
        \/ (h = g /\ i = Len(stack[g]) /\ stack'[h][i] = f2)
        \/ (h = g /\ i = Len(stack[g]) + 1 /\ stack'[h][i].phase = "lock" /\ stack'[h][i].inst = 0)

LEMMA SetTopShape == ASSUME TypeOK, NEW g \in G, Busy(g), NEW f2 \in FrameT, stack' = SetTop(g, f2)
                     PROVE  Shape(g, f2) /\ Len(stack[g]) \in 1..Len(stack'[g]) /\ stack'[g][Len(stack[g])] = f2
  <1>1. /\ \A h \in G : h # g => stack'[h] = stack[h]
        /\ Len(stack'[g]) = Len(stack[g])
        /\ \A i \in 1..Len(stack[g]) : i # Len(stack[g]) => stack'[g][i] = stack[g][i]
        /\ stack'[g][Len(stack[g])] = f2
    BY SetTopProps
  <1>2. Len(stack[g]) \in Nat \ {0}
    BY BusyLen
  <1> QED BY <1>1, <1>2 DEF Shape

LEMMA PopShape == ASSUME TypeOK, NEW g \in G, Busy(g), stack' = Pop(g), NEW f2
                  PROVE  Shape(g, f2) /\ Len(stack[g]) \notin 1..Len(stack'[g])
  <1>1. /\ \A h \in G : h # g => stack'[h] = stack[h]
        /\ Len(stack'[g]) = Len(stack[g]) - 1
        /\ \A i \in 1..(Len(stack[g]) - 1) : stack'[g][i] = stack[g][i]
    BY PopProps
  <1>2. Len(stack[g]) \in Nat \ {0}
    BY BusyLen
  <1> QED BY <1>1, <1>2 DEF Shape

(* pure logic: a step that keeps built[s] and shared[s], maps every early / store frame of s to one of the same class and      *)
(* instance, and keeps a store frame of s if there was one                                                                      *)
LEMMA NeutralFor ==
  ASSUME NEW s \in Svc, OnceFor(s), built'[s] = built[s], shared'[s] = shared[s],
         \A h \in G : \A i \in 1..Len(stack'[h]) : Cls(stack'[h][i], s) # "none" =>
             \E k \in 1..Len(stack[h]) : Cls(stack[h][k], s) = Cls(stack'[h][i], s) /\ (Cls(stack'[h][i], s) = "store" => stack[h][k].inst = stack'[h][i].inst),
         \A h \in G : \A i \in 1..Len(stack[h]) : Cls(stack[h][i], s) = "store" =>
             \E k \in 1..Len(stack'[h]) : Cls(stack'[h][k], s) = "store"
  PROVE  OnceFor(s)'
  BY DEF OnceFor

(* the top frame is replaced by one of the same class *)
LEMMA RetopNeutral ==
  ASSUME TypeOK, NEW s \in Svc, OnceFor(s), NEW g \in G, Busy(g), NEW f2, Shape(g, f2),
         Len(stack[g]) \in 1..Len(stack'[g]), stack'[g][Len(stack[g])] = f2,
         Cls(f2, s) = Cls(Top(g), s), f2.inst = Top(g).inst \/ Cls(f2, s) # "store",
         built'[s] = built[s], shared'[s] = shared[s]
  PROVE  OnceFor(s)'
  <1> DEFINE n == Len(stack[g])
  <1>1. n \in Nat \ {0} /\ Top(g) = stack[g][n]
    BY BusyLen
  <1>2. \A h \in G : \A i \in 1..Len(stack'[h]) : Cls(stack'[h][i], s) # "none" =>
             \E k \in 1..Len(stack[h]) : Cls(stack[h][k], s) = Cls(stack'[h][i], s) /\ (Cls(stack'[h][i], s) = "store" => stack[h][k].inst = stack'[h][i].inst)
    <2> SUFFICES ASSUME NEW h \in G, NEW i \in 1..Len(stack'[h]), Cls(stack'[h][i], s) # "none"
                 PROVE  \E k \in 1..Len(stack[h]) : Cls(stack[h][k], s) = Cls(stack'[h][i], s) /\ (Cls(stack'[h][i], s) = "store" => stack[h][k].inst = stack'[h][i].inst)
      OBVIOUS
    <2>1. CASE i \in 1..Len(stack[h]) /\ ~(h = g /\ i = n) /\ stack'[h][i] = stack[h][i]
      BY <2>1
    <2>2. CASE h = g /\ i = n /\ stack'[h][i] = f2
      <3>1. n \in 1..Len(stack[g]) /\ Cls(stack[g][n], s) = Cls(f2, s) /\ (Cls(f2, s) = "store" => stack[g][n].inst = f2.inst)
        BY <1>1, <2>2
      <3> QED BY <3>1, <2>2
    <2>3. CASE h = g /\ i = n + 1 /\ stack'[h][i].phase = "lock"
      BY <2>3 DEF Cls
    <2> QED BY <2>1, <2>2, <2>3 DEF Shape
  <1>3. \A h \in G : \A i \in 1..Len(stack[h]) : Cls(stack[h][i], s) = "store" => \E k \in 1..Len(stack'[h]) : Cls(stack'[h][k], s) = "store"
    <2> SUFFICES ASSUME NEW h \in G, NEW i \in 1..Len(stack[h]), Cls(stack[h][i], s) = "store"
                 PROVE  \E k \in 1..Len(stack'[h]) : Cls(stack'[h][k], s) = "store"
      OBVIOUS
    <2>1. CASE ~(h = g /\ i = n)
      BY <2>1 DEF Shape
    <2>2. CASE h = g /\ i = n
      BY <2>2, <1>1
    <2> QED BY <2>1, <2>2
  <1> QED BY <1>2, <1>3, NeutralFor

(* the top frame, of class none, is dropped - or there was no frame and one in phase "lock" is pushed *)
LEMMA DropNeutral ==
  ASSUME TypeOK, NEW s \in Svc, OnceFor(s), NEW g \in G, NEW f2, Shape(g, f2),
         Len(stack[g]) \notin 1..Len(stack'[g]), Busy(g) => Cls(Top(g), s) = "none",
         built'[s] = built[s], shared'[s] = shared[s]
  PROVE  OnceFor(s)'
  <1> DEFINE n == Len(stack[g])
  <1>1. stack[g] \in Seq(FrameT) /\ n \in Nat
    BY LenProperties DEF TypeOK
  <1>2. n # 0 => (Busy(g) /\ Top(g) = stack[g][n])
    BY <1>1, EmptySeq DEF Busy, Top
  <1>3. \A h \in G : \A i \in 1..Len(stack'[h]) : Cls(stack'[h][i], s) # "none" =>
             \E k \in 1..Len(stack[h]) : Cls(stack[h][k], s) = Cls(stack'[h][i], s) /\ (Cls(stack'[h][i], s) = "store" => stack[h][k].inst = stack'[h][i].inst)
    <2> SUFFICES ASSUME NEW h \in G, NEW i \in 1..Len(stack'[h]), Cls(stack'[h][i], s) # "none"
                 PROVE  \E k \in 1..Len(stack[h]) : Cls(stack[h][k], s) = Cls(stack'[h][i], s) /\ (Cls(stack'[h][i], s) = "store" => stack[h][k].inst = stack'[h][i].inst)
      OBVIOUS
    <2>1. CASE i \in 1..Len(stack[h]) /\ ~(h = g /\ i = n) /\ stack'[h][i] = stack[h][i]
      BY <2>1
    <2>2. CASE h = g /\ i = n /\ stack'[h][i] = f2
      BY <2>2
    <2>3. CASE h = g /\ i = n + 1 /\ stack'[h][i].phase = "lock"
      BY <2>3 DEF Cls
    <2> QED BY <2>1, <2>2, <2>3 DEF Shape
  <1>4. \A h \in G : \A i \in 1..Len(stack[h]) : Cls(stack[h][i], s) = "store" => \E k \in 1..Len(stack'[h]) : Cls(stack'[h][k], s) = "store"
    <2> SUFFICES ASSUME NEW h \in G, NEW i \in 1..Len(stack[h]), Cls(stack[h][i], s) = "store"
                 PROVE  \E k \in 1..Len(stack'[h]) : Cls(stack'[h][k], s) = "store"
      OBVIOUS
    <2>1. CASE ~(h = g /\ i = n)
      BY <2>1 DEF Shape
    <2>2. CASE h = g /\ i = n
      BY <2>2, <1>1, <1>2
    <2> QED BY <2>1, <2>2
  <1> QED BY <1>3, <1>4, NeutralFor

LEMMA BeginOnce == ASSUME Inv, OnceInv, NEW g \in G, Begin(g) PROVE OnceInv'
  <1>1. TypeOK
    BY DEF Inv
  <1> DEFINE o == CurOp(g)
             k == IF o.op = "GetParam" THEN "par" ELSE "svc"
             fr == Frame(k, o.id)
  <1>2. stack' = Push(g, fr) /\ ~Busy(g) /\ built' = built /\ shared' = shared
    BY DEF Begin
  <1>3. pcs[g] \in 1..Len(Ops[g])
    BY <1>1 DEF Begin, TypeOK
  <1>4. fr \in FrameT /\ fr.phase = "lock" /\ fr.inst = 0
    <2>1. o.id \in Keys /\ (k = "svc" => o.id \in Svc) /\ (k = "par" => o.id \in Par)
      BY <1>3, ConstAssump DEF CurOp
    <2> QED BY <2>1, FrameTyped DEF Frame
  <1>5. stack[g] = <<>> /\ Len(stack[g]) = 0
    BY <1>2 DEF Busy
  <1>6. /\ \A h \in G : h # g => stack'[h] = stack[h]
        /\ Len(stack'[g]) = Len(stack[g]) + 1
        /\ stack'[g][Len(stack[g]) + 1] = fr
    BY <1>1, <1>2, <1>4, PushProps
  <1>7. Shape(g, fr) /\ Len(stack[g]) \notin 1..Len(stack'[g])
    BY <1>5, <1>6, <1>4 DEF Shape
  <1> SUFFICES ASSUME NEW s \in Svc, ScopeOf[s] = "shared" PROVE OnceFor(s)'
    BY DEF OnceInv
  <1>8. OnceFor(s)
    BY DEF OnceInv
  <1> QED BY <1>1, <1>2, <1>7, <1>8, DropNeutral

LEMMA LockOnce == ASSUME Inv, OnceInv, NEW g \in G, Lock(g) PROVE OnceInv'
  <1>1. TypeOK /\ Busy(g) /\ Top(g).phase = "lock"
    BY DEF Inv, Lock
  <1> DEFINE f2 == [Top(g) EXCEPT !.phase = "check"]
  <1>2. Top(g) \in FrameT
    BY <1>1, BusyLen
  <1>3. f2 \in FrameT /\ stack' = SetTop(g, f2) /\ built' = built /\ shared' = shared
    BY <1>2 DEF Lock, FrameT, Phases
  <1>4. Shape(g, f2) /\ Len(stack[g]) \in 1..Len(stack'[g]) /\ stack'[g][Len(stack[g])] = f2
    BY <1>1, <1>3, SetTopShape
  <1> SUFFICES ASSUME NEW s \in Svc, ScopeOf[s] = "shared" PROVE OnceFor(s)'
    BY DEF OnceInv
  <1>5. OnceFor(s) /\ Cls(f2, s) = "none" /\ Cls(Top(g), s) = "none"
    BY <1>1, <1>2 DEF OnceInv, Cls, FrameT
  <1> QED BY <1>1, <1>3, <1>4, <1>5, RetopNeutral

LEMMA CheckOnce == ASSUME Inv, OnceInv, NEW g \in G, Check(g) PROVE OnceInv'
  <1>1. TypeOK /\ Busy(g) /\ Top(g).phase = "check"
    BY DEF Inv, Check
  <1> DEFINE f == Top(g)
             n == Len(stack[g])
             f2 == IF Cached(g) # 0 THEN [f EXCEPT !.phase = "unlock", !.inst = Cached(g)] ELSE [f EXCEPT !.phase = "deps"]
  <1>2. f \in FrameT /\ Cached(g) \in Nat /\ n \in Nat \ {0} /\ f = stack[g][n]
    BY <1>1, BusyLen, CachedNat
  <1>3. f2 \in FrameT /\ stack' = SetTop(g, f2) /\ built' = built /\ shared' = shared /\ f2.kind = f.kind /\ f2.id = f.id
    BY <1>2 DEF Check, FrameT, Phases
  <1>4. Shape(g, f2) /\ n \in 1..Len(stack'[g]) /\ stack'[g][n] = f2
    BY <1>1, <1>3, SetTopShape
  <1> SUFFICES ASSUME NEW s \in Svc, ScopeOf[s] = "shared" PROVE OnceFor(s)'
    BY DEF OnceInv
  <1>5. OnceFor(s) /\ Cls(f, s) = "none"
    BY <1>1 DEF OnceInv, Cls
  <1>6. CASE ~(IsSvcFrame(f, s) /\ Cached(g) = 0)
    <2>1. Cls(f2, s) = "none"
      <3>1. CASE Cached(g) # 0
        <4>1. f2.phase = "unlock"
          BY <3>1, <1>2 DEF FrameT
        <4> QED BY <4>1 DEF Cls
      <3>2. CASE Cached(g) = 0
        <4>1. ~IsSvcFrame(f2, s)
          BY <3>2, <1>6, <1>3 DEF IsSvcFrame
        <4> QED BY <4>1 DEF Cls
      <3> QED BY <3>1, <3>2
    <2> QED BY <1>1, <1>3, <1>4, <1>5, <2>1, RetopNeutral
  <1>7. CASE IsSvcFrame(f, s) /\ Cached(g) = 0
    <2>1. shared[s] = 0 /\ f2.phase = "deps" /\ Cls(f2, s) = "early"
      BY <1>7, <1>2, <1>3 DEF Cached, IsSvcFrame, Cls, FrameT
    <2>2. \A h \in G : \A i \in 1..Len(stack[h]) : ~(h = g /\ i = n) => Cls(stack[h][i], s) = "none"
      <3> SUFFICES ASSUME NEW h \in G, NEW i \in 1..Len(stack[h]), ~(h = g /\ i = n) PROVE Cls(stack[h][i], s) = "none"
        OBVIOUS
      <3>1. n \in 1..Len(stack[g]) /\ IsSvcFrame(stack[g][n], s) /\ stack[g][n].phase \in HeldPhases
        BY <1>7, <1>2, <1>1 DEF HeldPhases
      <3> QED BY <3>1, OnlyOneInside
    <2>3. \A h \in G : \A i \in 1..Len(stack[h]) : Cls(stack[h][i], s) = "none"
      BY <2>2, <1>5, <1>2
    <2>4. built[s] = 0
      BY <2>1, <2>3, <1>5 DEF OnceFor
    <2>5. \A h \in G : \A i \in 1..Len(stack'[h]) : Cls(stack'[h][i], s) \in {"none", "early"}
      <3> SUFFICES ASSUME NEW h \in G, NEW i \in 1..Len(stack'[h]) PROVE Cls(stack'[h][i], s) \in {"none", "early"}
        OBVIOUS
      <3>1. CASE i \in 1..Len(stack[h]) /\ ~(h = g /\ i = n) /\ stack'[h][i] = stack[h][i]
        BY <3>1, <2>3
      <3>2. CASE h = g /\ i = n /\ stack'[h][i] = f2
        BY <3>2, <2>1
      <3>3. CASE h = g /\ i = n + 1 /\ stack'[h][i].phase = "lock"
        BY <3>3 DEF Cls
      <3> QED BY <3>1, <3>2, <3>3, <1>4 DEF Shape
    <2> QED BY <2>1, <2>4, <2>5, <1>3 DEF OnceFor
  <1> QED BY <1>6, <1>7

LEMMA DepOnce == ASSUME Inv, OnceInv, NEW g \in G, Dep(g) PROVE OnceInv'
  <1>1. TypeOK /\ Busy(g) /\ Top(g).phase = "deps"
    BY DEF Inv, Dep
  <1> DEFINE f == Top(g)
             n == Len(stack[g])
             ds == DepsOf[f.id]
  <1>2. f \in FrameT /\ n \in Nat \ {0} /\ f = stack[g][n]
    BY <1>1, BusyLen
  <1>3. built' = built /\ shared' = shared
    BY DEF Dep
  <1>4. \E f2 \in FrameT : /\ Shape(g, f2) /\ n \in 1..Len(stack'[g]) /\ stack'[g][n] = f2
                           /\ f2.kind = f.kind /\ f2.id = f.id /\ f2.phase \in {"deps", "build"} /\ f2.inst = f.inst
    <2>1. CASE f.dep > Len(ds)
      <3> DEFINE f2 == [f EXCEPT !.phase = "build"]
      <3>1. f2 \in FrameT /\ f2.kind = f.kind /\ f2.id = f.id /\ f2.phase \in {"deps", "build"} /\ f2.inst = f.inst
        BY <1>2 DEF FrameT, Phases
      <3>2. stack' = SetTop(g, f2)
        BY <2>1 DEF Dep
      <3> QED BY <1>1, <3>1, <3>2, SetTopShape
    <2>2. CASE ~(f.dep > Len(ds))
      <3> DEFINE f2 == [f EXCEPT !.dep = f.dep + 1]
                 d == ds[f.dep]
                 fr == Frame(d[1], d[2])
                 mid == [stack[g] EXCEPT ![n] = f2]
      <3>1. f.id \in Keys /\ f.dep \in Nat \ {0} /\ ds \in Seq({"svc", "par"} \X Keys)
        BY <1>2, ConstAssump DEF FrameT
      <3>2. f.dep \in 1..Len(ds)
        BY <2>2, <3>1, LenProperties
      <3>3. d \in {"svc", "par"} \X Keys /\ (d[1] = "svc" => d[2] \in Svc) /\ (d[1] = "par" => d[2] \in Par)
        BY <3>1, <3>2, ConstAssump, ElementOfSeq
      <3>4. fr \in FrameT /\ fr.phase = "lock" /\ fr.inst = 0
        BY <3>3, FrameTyped DEF Frame
      <3>5. f2 \in FrameT /\ f2.kind = f.kind /\ f2.id = f.id /\ f2.phase \in {"deps", "build"} /\ f2.inst = f.inst
        BY <1>1, <1>2 DEF FrameT
      <3>6. stack' = [stack EXCEPT ![g] = Append(mid, fr)]
        BY <2>2 DEF Dep
      <3>7. stack[g] \in Seq(FrameT) /\ stack \in [G -> Seq(FrameT)]
        BY <1>1 DEF TypeOK
      <3>8. mid \in Seq(FrameT) /\ Len(mid) = n /\ \A i \in 1..n : mid[i] = IF i = n THEN f2 ELSE stack[g][i]
        BY <3>7, <3>5, <1>2, ExceptSeq
      <3>9. /\ Append(mid, fr) \in Seq(FrameT) /\ Len(Append(mid, fr)) = n + 1
            /\ \A i \in 1..n : Append(mid, fr)[i] = mid[i]
            /\ Append(mid, fr)[n + 1] = fr
        BY <3>8, <3>4, AppendProperties
      <3>10. /\ \A h \in G : h # g => stack'[h] = stack[h]
             /\ Len(stack'[g]) = n + 1
             /\ \A i \in 1..n : i # n => stack'[g][i] = stack[g][i]
             /\ stack'[g][n] = f2 /\ stack'[g][n + 1] = fr
        BY <3>6, <3>7, <3>8, <3>9, <1>2
      <3>11. Shape(g, f2) /\ n \in 1..Len(stack'[g])
        BY <3>10, <3>4, <1>2 DEF Shape
      <3> QED BY <3>5, <3>10, <3>11
    <2> QED BY <2>1, <2>2
  <1> SUFFICES ASSUME NEW s \in Svc, ScopeOf[s] = "shared" PROVE OnceFor(s)'
    BY DEF OnceInv
  <1>5. OnceFor(s)
    BY DEF OnceInv
  <1>6. PICK f2 \in FrameT : /\ Shape(g, f2) /\ n \in 1..Len(stack'[g]) /\ stack'[g][n] = f2
                            /\ f2.kind = f.kind /\ f2.id = f.id /\ f2.phase \in {"deps", "build"} /\ f2.inst = f.inst
    BY <1>4
  <1>7. Cls(f2, s) = Cls(f, s)
    BY <1>6, <1>1 DEF Cls, IsSvcFrame
  <1> QED BY <1>1, <1>3, <1>5, <1>6, <1>7, RetopNeutral

LEMMA ConstructOnce == ASSUME Inv, OnceInv, NEW g \in G, Construct(g) PROVE OnceInv'
  <1>1. TypeOK /\ Busy(g) /\ Top(g).phase = "build"
    BY DEF Inv, Construct
  <1> DEFINE f == Top(g)
             n == Len(stack[g])
             f2 == IF f.kind = "par" THEN [f EXCEPT !.phase = "store", !.inst = 1] ELSE [f EXCEPT !.phase = "store", !.inst = nextInst]
  <1>2. f \in FrameT /\ n \in Nat \ {0} /\ f = stack[g][n] /\ nextInst \in Nat \ {0} /\ built \in [Svc -> Nat]
    BY <1>1, BusyLen DEF TypeOK
  <1>3. f2 \in FrameT /\ stack' = SetTop(g, f2) /\ shared' = shared /\ f2.kind = f.kind /\ f2.id = f.id /\ f2.phase = "store" /\ f2.inst # 0
    BY <1>2 DEF Construct, FrameT, Phases
  <1>4. Shape(g, f2) /\ n \in 1..Len(stack'[g]) /\ stack'[g][n] = f2
    BY <1>1, <1>3, SetTopShape
  <1> SUFFICES ASSUME NEW s \in Svc, ScopeOf[s] = "shared" PROVE OnceFor(s)'
    BY DEF OnceInv
  <1>5. OnceFor(s)
    BY DEF OnceInv
  <1>6. CASE ~IsSvcFrame(f, s)
    <2>1. Cls(f2, s) = "none" /\ Cls(f, s) = "none"
      BY <1>6, <1>3 DEF Cls, IsSvcFrame
    <2>2. built'[s] = built[s]
      <3>1. CASE f.kind = "par"
        BY <3>1 DEF Construct
      <3>2. CASE f.kind # "par"
        <4>1. f.id \in Svc /\ f.id # s /\ built' = [built EXCEPT ![f.id] = @ + 1]
          BY <3>2, <1>2, <1>6 DEF Construct, FrameT, IsSvcFrame
        <4> QED BY <4>1, <1>2
      <3> QED BY <3>1, <3>2
    <2> QED BY <1>1, <1>3, <1>4, <1>5, <2>1, <2>2, RetopNeutral
  <1>7. CASE IsSvcFrame(f, s)
    <2>1. Cls(f, s) = "early" /\ built[s] = 0 /\ shared[s] = 0
      BY <1>7, <1>1, <1>2, <1>5 DEF Cls, OnceFor
    <2>2. built'[s] = 1
      <3>1. f.kind # "par" /\ f.id = s /\ built' = [built EXCEPT ![f.id] = @ + 1]
        BY <1>7 DEF Construct, IsSvcFrame
      <3> QED BY <3>1, <2>1, <1>2
    <2>3. \A h \in G : \A i \in 1..Len(stack[h]) : ~(h = g /\ i = n) => Cls(stack[h][i], s) = "none"
      <3> SUFFICES ASSUME NEW h \in G, NEW i \in 1..Len(stack[h]), ~(h = g /\ i = n) PROVE Cls(stack[h][i], s) = "none"
        OBVIOUS
      <3>1. n \in 1..Len(stack[g]) /\ IsSvcFrame(stack[g][n], s) /\ stack[g][n].phase \in HeldPhases
        BY <1>7, <1>2, <1>1 DEF HeldPhases
      <3> QED BY <3>1, OnlyOneInside
    <2>4. Cls(f2, s) = "store"
      BY <1>7, <1>3 DEF Cls, IsSvcFrame
    <2>5. \A h \in G : \A i \in 1..Len(stack'[h]) : Cls(stack'[h][i], s) = "none" \/ (Cls(stack'[h][i], s) = "store" /\ stack'[h][i].inst # 0)
      <3> SUFFICES ASSUME NEW h \in G, NEW i \in 1..Len(stack'[h])
                   PROVE  Cls(stack'[h][i], s) = "none" \/ (Cls(stack'[h][i], s) = "store" /\ stack'[h][i].inst # 0)
        OBVIOUS
      <3>1. CASE i \in 1..Len(stack[h]) /\ ~(h = g /\ i = n) /\ stack'[h][i] = stack[h][i]
        BY <3>1, <2>3
      <3>2. CASE h = g /\ i = n /\ stack'[h][i] = f2
        BY <3>2, <2>4, <1>3
      <3>3. CASE h = g /\ i = n + 1 /\ stack'[h][i].phase = "lock"
        BY <3>3 DEF Cls
      <3> QED BY <3>1, <3>2, <3>3, <1>4 DEF Shape
    <2>6. \E h \in G : \E i \in 1..Len(stack'[h]) : Cls(stack'[h][i], s) = "store"
      BY <1>4, <2>4
    <2> QED BY <2>1, <2>2, <2>5, <2>6, <1>3 DEF OnceFor
  <1> QED BY <1>6, <1>7

LEMMA StoreOnce == ASSUME Inv, OnceInv, NEW g \in G, Store(g) PROVE OnceInv'
  <1>1. TypeOK /\ Busy(g) /\ Top(g).phase = "store"
    BY DEF Inv, Store
  <1> DEFINE f == Top(g)
             n == Len(stack[g])
             f2 == [f EXCEPT !.phase = "unlock"]
  <1>2. f \in FrameT /\ n \in Nat \ {0} /\ f = stack[g][n] /\ shared \in [Svc -> Nat]
    BY <1>1, BusyLen DEF TypeOK
  <1>3. f2 \in FrameT /\ stack' = SetTop(g, f2) /\ built' = built /\ f2.phase = "unlock"
    BY <1>2 DEF Store, FrameT, Phases
  <1>4. Shape(g, f2) /\ n \in 1..Len(stack'[g]) /\ stack'[g][n] = f2
    BY <1>1, <1>3, SetTopShape
  <1> SUFFICES ASSUME NEW s \in Svc, ScopeOf[s] = "shared" PROVE OnceFor(s)'
    BY DEF OnceInv
  <1>5. OnceFor(s) /\ Cls(f2, s) = "none"
    BY <1>3 DEF OnceInv, Cls
  <1>6. CASE ~IsSvcFrame(f, s)
    <2>1. Cls(f, s) = "none"
      BY <1>6 DEF Cls
    <2>2. shared'[s] = shared[s]
      <3>1. CASE f.kind = "par"
        BY <3>1 DEF Store
      <3>2. CASE f.kind # "par" /\ ScopeOf[f.id] = "shared"
        <4>1. f.id \in Svc /\ f.id # s /\ shared' = [shared EXCEPT ![f.id] = f.inst]
          BY <3>2, <1>2, <1>6 DEF Store, FrameT, IsSvcFrame
        <4> QED BY <4>1, <1>2
      <3>3. CASE f.kind # "par" /\ ScopeOf[f.id] # "shared"
        BY <3>3 DEF Store
      <3> QED BY <3>1, <3>2, <3>3
    <2> QED BY <1>1, <1>3, <1>4, <1>5, <2>1, <2>2, RetopNeutral
  <1>7. CASE IsSvcFrame(f, s)
    <2>1. Cls(f, s) = "store" /\ built[s] = 1 /\ f.inst # 0
      BY <1>7, <1>1, <1>2, <1>5 DEF Cls, OnceFor
    <2>2. shared'[s] = f.inst
      <3>1. f.kind # "par" /\ f.id = s /\ ScopeOf[f.id] = "shared"
        BY <1>7 DEF IsSvcFrame
      <3>2. shared' = [shared EXCEPT ![f.id] = f.inst]
        BY <3>1 DEF Store
      <3> QED BY <3>1, <3>2, <1>2
    <2>3. \A h \in G : \A i \in 1..Len(stack[h]) : ~(h = g /\ i = n) => Cls(stack[h][i], s) = "none"
      <3> SUFFICES ASSUME NEW h \in G, NEW i \in 1..Len(stack[h]), ~(h = g /\ i = n) PROVE Cls(stack[h][i], s) = "none"
        OBVIOUS
      <3>1. n \in 1..Len(stack[g]) /\ IsSvcFrame(stack[g][n], s) /\ stack[g][n].phase \in HeldPhases
        BY <1>7, <1>2, <1>1 DEF HeldPhases
      <3> QED BY <3>1, OnlyOneInside
    <2>4. \A h \in G : \A i \in 1..Len(stack'[h]) : Cls(stack'[h][i], s) = "none"
      <3> SUFFICES ASSUME NEW h \in G, NEW i \in 1..Len(stack'[h]) PROVE Cls(stack'[h][i], s) = "none"
        OBVIOUS
      <3>1. CASE i \in 1..Len(stack[h]) /\ ~(h = g /\ i = n) /\ stack'[h][i] = stack[h][i]
        BY <3>1, <2>3
      <3>2. CASE h = g /\ i = n /\ stack'[h][i] = f2
        BY <3>2, <1>5
      <3>3. CASE h = g /\ i = n + 1 /\ stack'[h][i].phase = "lock"
        BY <3>3 DEF Cls
      <3> QED BY <3>1, <3>2, <3>3, <1>4 DEF Shape
    <2> QED BY <2>1, <2>2, <2>4, <1>3 DEF OnceFor
  <1> QED BY <1>6, <1>7

LEMMA UnlockOnce == ASSUME Inv, OnceInv, NEW g \in G, Unlock(g) PROVE OnceInv'
  <1>1. TypeOK /\ Busy(g) /\ Top(g).phase = "unlock"
    BY DEF Inv, Unlock
  <1> DEFINE f == Top(g)
             n == Len(stack[g])
             f2 == [f EXCEPT !.phase = "return"]
  <1>2. f \in FrameT /\ n \in Nat \ {0}
    BY <1>1, BusyLen
  <1>3. f2 \in FrameT /\ built' = built /\ shared' = shared /\ f2.phase = "return"
    BY <1>2 DEF Unlock, FrameT, Phases
  <1> SUFFICES ASSUME NEW s \in Svc, ScopeOf[s] = "shared" PROVE OnceFor(s)'
    BY DEF OnceInv
  <1>4. OnceFor(s) /\ Cls(f2, s) = "none" /\ Cls(f, s) = "none"
    BY <1>1, <1>3 DEF OnceInv, Cls
  <1>5. CASE n = 1
    <2>1. stack' = SetTop(g, f2)
      BY <1>5 DEF Unlock
    <2>2. Shape(g, f2) /\ n \in 1..Len(stack'[g]) /\ stack'[g][n] = f2
      BY <1>1, <1>3, <2>1, SetTopShape
    <2> QED BY <1>1, <1>3, <1>4, <2>2, RetopNeutral
  <1>6. CASE n # 1
    <2>1. stack' = Pop(g)
      BY <1>6 DEF Unlock
    <2>2. Shape(g, f2) /\ n \notin 1..Len(stack'[g])
      BY <1>1, <2>1, PopShape
    <2> QED BY <1>1, <1>3, <1>4, <2>2, DropNeutral
  <1> QED BY <1>5, <1>6

LEMMA ReturnOnce == ASSUME Inv, OnceInv, NEW g \in G, Return(g) PROVE OnceInv'
  <1>1. TypeOK /\ Busy(g) /\ Top(g).phase = "return"
    BY DEF Inv, Return
  <1>2. stack' = Pop(g) /\ built' = built /\ shared' = shared
    BY DEF Return
  <1>3. Shape(g, Top(g)) /\ Len(stack[g]) \notin 1..Len(stack'[g])
    BY <1>1, <1>2, PopShape
  <1> SUFFICES ASSUME NEW s \in Svc, ScopeOf[s] = "shared" PROVE OnceFor(s)'
    BY DEF OnceInv
  <1>4. OnceFor(s) /\ Cls(Top(g), s) = "none"
    BY <1>1 DEF OnceInv, Cls
  <1> QED BY <1>1, <1>2, <1>3, <1>4, DropNeutral

THEOREM OnceInductive == Inv /\ OnceInv /\ [CNext]_cvars => OnceInv'
  <1> SUFFICES ASSUME Inv, OnceInv, [CNext]_cvars PROVE OnceInv'
    OBVIOUS
  <1>1. CASE UNCHANGED cvars
    BY <1>1 DEF OnceInv, OnceFor, cvars, Cls, IsSvcFrame
  <1>2. ASSUME NEW g \in G, Begin(g) \/ Lock(g) \/ Check(g) \/ Dep(g) \/ Construct(g) \/ Store(g) \/ Unlock(g) \/ Return(g) PROVE OnceInv'
    BY <1>2, BeginOnce, LockOnce, CheckOnce, DepOnce, ConstructOnce, StoreOnce, UnlockOnce, ReturnOnce
  <1> QED BY <1>1, <1>2 DEF CNext

THEOREM MutexFromInv == Inv => MutualExclusion
  <1> SUFFICES ASSUME Inv,
                      NEW g1 \in G, NEW g2 \in G, g1 # g2, Busy(g1), Busy(g2),
                      NEW i \in 1..Len(stack[g1]), NEW j \in 1..Len(stack[g2]),
                      stack[g1][i].id = stack[g2][j].id, stack[g1][i].kind = stack[g2][j].kind,
                      NeedsLock(stack[g1][i]),
                      stack[g1][i].phase \in {"check", "deps", "build", "store", "unlock"},
                      stack[g2][j].phase \in {"check", "deps", "build", "store", "unlock"}
               PROVE  FALSE
    BY DEF MutualExclusion
  <1>1. Held(stack[g1][i]) /\ Held(stack[g2][j])
    BY DEF Held, HeldPhases, NeedsLock
  <1>2. locks[stack[g1][i].id] = g1 /\ locks[stack[g2][j].id] = g2
    BY <1>1 DEF Inv, LockInv
  <1> QED BY <1>2
LEMMA DepInv == ASSUME Inv, NEW g \in G, Dep(g) PROVE Inv'
  <1>1. TypeOK /\ LockInv /\ NoDup /\ Busy(g) /\ Top(g).phase = "deps"
    BY DEF Inv, Dep
  <1> DEFINE f == Top(g)
             n == Len(stack[g])
             ds == DepsOf[f.id]
  <1>2. f \in FrameT /\ n \in Nat \ {0} /\ f = stack[g][n]
    BY <1>1, BusyLen
  <1>3. UNCHANGED <<pcs, locks, shared, bags, pcache, nextInst, built>>
    BY DEF Dep
  <1>4. CASE f.dep > Len(ds)
    <2> DEFINE f2 == [f EXCEPT !.phase = "build"]
    <2>1. f2 \in FrameT /\ f2.kind = f.kind /\ f2.id = f.id /\ (Held(f2) <=> Held(f))
      BY <1>1, <1>2 DEF FrameT, Phases, Held, HeldPhases, NeedsLock
    <2>2. stack' = SetTop(g, f2)
      BY <1>4 DEF Dep
    <2>3. stack' \in [G -> Seq(FrameT)] /\ LockInv' /\ NoDup'
      BY <1>1, <1>3, <2>1, <2>2, RetopKeeps DEF Inv
    <2>4. TypeOK'
      BY <1>1, <1>3, <2>3 DEF TypeOK, BagsOK
    <2> QED BY <2>3, <2>4 DEF Inv
  <1>5. CASE ~(f.dep > Len(ds))
    <2> DEFINE f2 == [f EXCEPT !.dep = f.dep + 1]
               d == ds[f.dep]
               fr == Frame(d[1], d[2])
               mid == [stack[g] EXCEPT ![n] = f2]
    <2>1. f.id \in Keys /\ f.dep \in Nat \ {0} /\ ds \in Seq({"svc", "par"} \X Keys)
      BY <1>2, ConstAssump DEF FrameT
    <2>2. f.dep \in 1..Len(ds)
      BY <1>5, <2>1, LenProperties
    <2>3. d \in {"svc", "par"} \X Keys /\ (d[1] = "svc" => d[2] \in Svc) /\ (d[1] = "par" => d[2] \in Par)
      BY <2>1, <2>2, ConstAssump, ElementOfSeq
    <2>4. fr \in FrameT /\ ~Held(fr)
      BY <2>3, FrameTyped
    <2>5. f2 \in FrameT /\ f2.id = f.id /\ (Held(f2) <=> Held(f))
      BY <1>2 DEF FrameT, Held, NeedsLock
    <2>6. stack' = [stack EXCEPT ![g] = Append(mid, fr)]
      BY <1>5 DEF Dep
    <2>7. stack[g] \in Seq(FrameT) /\ stack \in [G -> Seq(FrameT)]
      BY <1>1 DEF TypeOK
    <2>8. mid \in Seq(FrameT) /\ Len(mid) = n /\ \A i \in 1..n : mid[i] = IF i = n THEN f2 ELSE stack[g][i]
      BY <2>7, <2>5, <1>2, ExceptSeq
    <2>9. /\ Append(mid, fr) \in Seq(FrameT) /\ Len(Append(mid, fr)) = n + 1
          /\ \A i \in 1..n : Append(mid, fr)[i] = mid[i]
          /\ Append(mid, fr)[n + 1] = fr
      BY <2>8, <2>4, AppendProperties
    <2>10. /\ stack' \in [G -> Seq(FrameT)]
           /\ \A h \in G : h # g => stack'[h] = stack[h]
           /\ Len(stack'[g]) = n + 1
           /\ \A i \in 1..n : i # n => stack'[g][i] = stack[g][i]
           /\ stack'[g][n] = f2 /\ stack'[g][n + 1] = fr
      BY <2>6, <2>7, <2>8, <2>9, <1>2
    <2>11. \A h \in G : \A i \in 1..Len(stack'[h]) :
              \/ (h = g /\ i = n + 1 /\ ~Held(stack'[h][i]))
              \/ (i \in 1..Len(stack[h]) /\ stack'[h][i].id = stack[h][i].id /\ (Held(stack'[h][i]) <=> Held(stack[h][i])))
      BY <2>10, <2>5, <2>4, <1>2
    <2>12. LockInv'
      BY <1>1, <1>3, <2>11 DEF LockInv
    <2>13. NoDup'
      BY <1>1, <2>11 DEF NoDup
    <2>14. TypeOK'
      BY <1>1, <1>3, <2>10 DEF TypeOK, BagsOK
    <2> QED BY <2>12, <2>13, <2>14 DEF Inv
  <1> QED BY <1>4, <1>5

LEMMA UnlockInv == ASSUME Inv, NEW g \in G, Unlock(g) PROVE Inv'
  <1>1. TypeOK /\ LockInv /\ NoDup /\ Busy(g) /\ Top(g).phase = "unlock"
    BY DEF Inv, Unlock
  <1> DEFINE f == Top(g)
             n == Len(stack[g])
             f2 == [f EXCEPT !.phase = "return"]
  <1>2. f \in FrameT /\ n \in Nat \ {0} /\ f = stack[g][n]
    BY <1>1, BusyLen
  <1>3. UNCHANGED <<pcs, shared, bags, pcache, nextInst, built>>
    BY DEF Unlock
  <1>4. f2 \in FrameT /\ ~Held(f2) /\ (Held(f) <=> NeedsLock(f))
    BY <1>1, <1>2 DEF FrameT, Phases, Held, HeldPhases
  <1>5. f.id \in Keys /\ locks \in [Keys -> G \cup {Free}]
    BY <1>1, <1>2 DEF FrameT, TypeOK
  <1>6. locks' \in [Keys -> G \cup {Free}] /\ \A x \in Keys : (x # f.id \/ ~NeedsLock(f)) => locks'[x] = locks[x]
    BY <1>5 DEF Unlock
  (* frames of others, and the frames below the top, keep what they are *)
  <1>7. /\ stack' \in [G -> Seq(FrameT)]
        /\ \A h \in G : h # g => stack'[h] = stack[h]
        /\ Len(stack'[g]) \in {n, n - 1}
        /\ \A i \in 1..Len(stack'[g]) : i # n => stack'[g][i] = stack[g][i]
        /\ \A i \in 1..Len(stack'[g]) : i = n => stack'[g][i] = f2
    <2>1. CASE n = 1
      <3>1. stack' = SetTop(g, f2)
        BY <2>1 DEF Unlock
      <3> QED BY <3>1, <1>1, <1>4, <1>2, SetTopProps
    <2>2. CASE n # 1
      <3>1. stack' = Pop(g)
        BY <2>2 DEF Unlock
      <3> QED BY <3>1, <1>1, <1>2, PopProps
    <2> QED BY <2>1, <2>2
  <1>8. \A h \in G : \A i \in 1..Len(stack[h]) : stack[h][i] \in FrameT
    <2>1. \A h \in G : stack[h] \in Seq(FrameT)
      BY <1>1 DEF TypeOK
    <2> QED BY <2>1, ElementOfSeq
  (* no other frame is inside the critical section of the entry that is being released *)
  <1>9. NeedsLock(f) => \A h \in G : \A i \in 1..Len(stack[h]) : (Held(stack[h][i]) /\ ~(h = g /\ i = n)) => stack[h][i].id # f.id
    <2> SUFFICES ASSUME NeedsLock(f), NEW h \in G, NEW i \in 1..Len(stack[h]), Held(stack[h][i]), ~(h = g /\ i = n), stack[h][i].id = f.id
                 PROVE  FALSE
      OBVIOUS
    <2>1. locks[f.id] = g /\ locks[f.id] = h
      BY <1>1, <1>2, <1>4 DEF LockInv
    <2>2. h = g /\ i # n
      BY <2>1
    <2> QED BY <2>2, <1>1, <1>2, <1>4 DEF NoDup
  <1>10. LockInv'
    <2> SUFFICES ASSUME NEW h \in G, NEW i \in 1..Len(stack'[h]), Held(stack'[h][i]) PROVE locks'[stack'[h][i].id] = h
      BY DEF LockInv
    <2>1. ~(h = g /\ i = n)
      BY <1>7, <1>4
    <2>2. i \in 1..Len(stack[h]) /\ stack'[h][i] = stack[h][i]
      BY <2>1, <1>7, <1>2
    <2>3. locks[stack[h][i].id] = h /\ stack[h][i].id \in Keys
      BY <2>2, <1>1, <1>8 DEF LockInv, FrameT
    <2>4. NeedsLock(f) => stack[h][i].id # f.id
      BY <2>1, <2>2, <1>9
    <2> QED BY <2>2, <2>3, <2>4, <1>6
  <1>11. NoDup'
    <2> SUFFICES ASSUME NEW h \in G, NEW i \in 1..Len(stack'[h]), NEW j \in 1..Len(stack'[h]), i # j,
                        Held(stack'[h][i]), Held(stack'[h][j])
                 PROVE  stack'[h][i].id # stack'[h][j].id
      BY DEF NoDup
    <2>1. ~(h = g /\ i = n) /\ ~(h = g /\ j = n)
      BY <1>7, <1>4
    <2>2. i \in 1..Len(stack[h]) /\ stack'[h][i] = stack[h][i] /\ j \in 1..Len(stack[h]) /\ stack'[h][j] = stack[h][j]
      BY <2>1, <1>7, <1>2
    <2> QED BY <2>2, <1>1 DEF NoDup
  <1>12. TypeOK'
    BY <1>1, <1>3, <1>6, <1>7 DEF TypeOK, BagsOK
  <1> QED BY <1>10, <1>11, <1>12 DEF Inv

LEMMA ReturnInv == ASSUME Inv, NEW g \in G, Return(g) PROVE Inv'
  <1>1. TypeOK /\ LockInv /\ NoDup /\ Busy(g) /\ Len(stack[g]) = 1
    BY DEF Inv, Return
  <1>2. UNCHANGED <<locks, shared, bags, pcache, nextInst, built>> /\ stack' = Pop(g) /\ pcs' = [pcs EXCEPT ![g] = @ + 1]
    BY DEF Return
  <1>3. /\ stack' \in [G -> Seq(FrameT)]
        /\ \A h \in G : h # g => stack'[h] = stack[h]
        /\ Len(stack'[g]) = 0
    BY <1>1, <1>2, PopProps
  <1>4. pcs' \in [G -> Nat \ {0}]
    BY <1>1, <1>2 DEF TypeOK
  <1>5. TypeOK'
    BY <1>1, <1>2, <1>3, <1>4 DEF TypeOK, BagsOK
  <1>6. LockInv'
    BY <1>1, <1>2, <1>3 DEF LockInv
  <1>7. NoDup'
    BY <1>1, <1>3 DEF NoDup
  <1> QED BY <1>5, <1>6, <1>7 DEF Inv

THEOREM InvInductive == Inv /\ [CNext]_cvars => Inv'
  <1> SUFFICES ASSUME Inv, [CNext]_cvars PROVE Inv'
    OBVIOUS
  <1>1. CASE UNCHANGED cvars
    BY <1>1 DEF Inv, TypeOK, BagsOK, LockInv, NoDup, cvars, Held, NeedsLock
  <1>2. ASSUME NEW g \in G, Begin(g) \/ Lock(g) \/ Check(g) \/ Dep(g) \/ Construct(g) \/ Store(g) \/ Unlock(g) \/ Return(g) PROVE Inv'
    BY <1>2, BeginInv, LockActInv, CheckInv, DepInv, ConstructInv, StoreInv, UnlockInv, ReturnInv
  <1> QED BY <1>1, <1>2 DEF CNext

THEOREM MutexAlways == (CInit /\ [][CNext]_cvars) => []MutualExclusion
  <1>1. CInit => Inv
    BY InitInv
  <1>2. Inv /\ [CNext]_cvars => Inv'
    BY InvInductive
  <1>3. Inv => MutualExclusion
    BY MutexFromInv
  <1> QED BY <1>1, <1>2, <1>3, PTL

-----------------------------------------------------------------------------
(* C20, third clause: a parameter is evaluated (successfully) at most once.  The same      *)
(* argument as for shared services, with evals / pcache in the place of built / shared;     *)
(* a parameter always needs its lock.                                                       *)
IsParFrame(fr, p) == fr.kind = "par" /\ fr.id = p
ClsP(fr, p) == IF IsParFrame(fr, p) /\ fr.phase \in {"deps", "build"} THEN "early"
               ELSE IF IsParFrame(fr, p) /\ fr.phase = "store" THEN "store" ELSE "none"
EvalFor(p) ==
  /\ evals[p] \in {0, 1}
  /\ pcache[p] => evals[p] = 1
  /\ \A g \in G : \A i \in 1..Len(stack[g]) :
        /\ ClsP(stack[g][i], p) = "early" => (evals[p] = 0 /\ ~pcache[p])
        /\ ClsP(stack[g][i], p) = "store" => (evals[p] = 1 /\ ~pcache[p])
  /\ (evals[p] = 1 /\ ~pcache[p]) => \E g \in G : \E i \in 1..Len(stack[g]) : ClsP(stack[g][i], p) = "store"
EvalInv == evals \in [Par -> Nat] /\ \A p \in Par : EvalFor(p)

THEOREM EvalImplies == EvalInv => EvaluatedOnce
  BY DEF EvalInv, EvalFor, EvaluatedOnce

LEMMA InitEval == CInit => EvalInv
  BY DEF CInit, EvalInv, EvalFor

LEMMA ParFrameHeld == ASSUME NEW s \in Par, NEW fr, IsParFrame(fr, s), fr.phase \in HeldPhases
                      PROVE  Held(fr)
  BY DEF Held, NeedsLock, IsParFrame

LEMMA OnlyOneInsideP ==
  ASSUME Inv, NEW s \in Par, NEW g \in G, NEW n \in 1..Len(stack[g]),
         IsParFrame(stack[g][n], s), stack[g][n].phase \in HeldPhases,
         NEW h \in G, NEW i \in 1..Len(stack[h]), ~(h = g /\ i = n)
  PROVE  ClsP(stack[h][i], s) = "none"
  <1> SUFFICES ASSUME ClsP(stack[h][i], s) # "none" PROVE FALSE
    OBVIOUS
  <1>1. IsParFrame(stack[h][i], s) /\ stack[h][i].phase \in HeldPhases
    BY DEF ClsP, HeldPhases
  <1>2. Held(stack[h][i]) /\ Held(stack[g][n]) /\ stack[h][i].id = stack[g][n].id
    BY <1>1, ParFrameHeld DEF IsParFrame
  <1> QED BY <1>2, HeldUnique

LEMMA NeutralForP ==
  ASSUME NEW s \in Par, EvalFor(s), evals'[s] = evals[s], pcache'[s] = pcache[s],
         \A h \in G : \A i \in 1..Len(stack'[h]) : ClsP(stack'[h][i], s) # "none" =>
             \E k \in 1..Len(stack[h]) : ClsP(stack[h][k], s) = ClsP(stack'[h][i], s),
         \A h \in G : \A i \in 1..Len(stack[h]) : ClsP(stack[h][i], s) = "store" =>
             \E k \in 1..Len(stack'[h]) : ClsP(stack'[h][k], s) = "store"
  PROVE  EvalFor(s)'
  BY DEF EvalFor

LEMMA RetopNeutralP ==
  ASSUME TypeOK, NEW s \in Par, EvalFor(s), NEW g \in G, Busy(g), NEW f2, Shape(g, f2),
         Len(stack[g]) \in 1..Len(stack'[g]), stack'[g][Len(stack[g])] = f2,
         ClsP(f2, s) = ClsP(Top(g), s),
         evals'[s] = evals[s], pcache'[s] = pcache[s]
  PROVE  EvalFor(s)'
  <1> DEFINE n == Len(stack[g])
  <1>1. n \in Nat \ {0} /\ Top(g) = stack[g][n]
    BY BusyLen
  <1>2. \A h \in G : \A i \in 1..Len(stack'[h]) : ClsP(stack'[h][i], s) # "none" =>
             \E k \in 1..Len(stack[h]) : ClsP(stack[h][k], s) = ClsP(stack'[h][i], s)
    <2> SUFFICES ASSUME NEW h \in G, NEW i \in 1..Len(stack'[h]), ClsP(stack'[h][i], s) # "none"
                 PROVE  \E k \in 1..Len(stack[h]) : ClsP(stack[h][k], s) = ClsP(stack'[h][i], s)
      OBVIOUS
    <2>1. CASE i \in 1..Len(stack[h]) /\ ~(h = g /\ i = n) /\ stack'[h][i] = stack[h][i]
      BY <2>1
    <2>2. CASE h = g /\ i = n /\ stack'[h][i] = f2
      <3>1. n \in 1..Len(stack[g]) /\ ClsP(stack[g][n], s) = ClsP(f2, s)
        BY <1>1, <2>2
      <3> QED BY <3>1, <2>2
    <2>3. CASE h = g /\ i = n + 1 /\ stack'[h][i].phase = "lock"
      BY <2>3 DEF ClsP
    <2> QED BY <2>1, <2>2, <2>3 DEF Shape
  <1>3. \A h \in G : \A i \in 1..Len(stack[h]) : ClsP(stack[h][i], s) = "store" => \E k \in 1..Len(stack'[h]) : ClsP(stack'[h][k], s) = "store"
    <2> SUFFICES ASSUME NEW h \in G, NEW i \in 1..Len(stack[h]), ClsP(stack[h][i], s) = "store"
                 PROVE  \E k \in 1..Len(stack'[h]) : ClsP(stack'[h][k], s) = "store"
      OBVIOUS
    <2>1. CASE ~(h = g /\ i = n)
      BY <2>1 DEF Shape
    <2>2. CASE h = g /\ i = n
      BY <2>2, <1>1
    <2> QED BY <2>1, <2>2
  <1> QED BY <1>2, <1>3, NeutralForP

LEMMA DropNeutralP ==
  ASSUME TypeOK, NEW s \in Par, EvalFor(s), NEW g \in G, NEW f2, Shape(g, f2),
         Len(stack[g]) \notin 1..Len(stack'[g]), Busy(g) => ClsP(Top(g), s) = "none",
         evals'[s] = evals[s], pcache'[s] = pcache[s]
  PROVE  EvalFor(s)'
  <1> DEFINE n == Len(stack[g])
  <1>1. stack[g] \in Seq(FrameT) /\ n \in Nat
    BY LenProperties DEF TypeOK
  <1>2. n # 0 => (Busy(g) /\ Top(g) = stack[g][n])
    BY <1>1, EmptySeq DEF Busy, Top
  <1>3. \A h \in G : \A i \in 1..Len(stack'[h]) : ClsP(stack'[h][i], s) # "none" =>
             \E k \in 1..Len(stack[h]) : ClsP(stack[h][k], s) = ClsP(stack'[h][i], s)
    <2> SUFFICES ASSUME NEW h \in G, NEW i \in 1..Len(stack'[h]), ClsP(stack'[h][i], s) # "none"
                 PROVE  \E k \in 1..Len(stack[h]) : ClsP(stack[h][k], s) = ClsP(stack'[h][i], s)
      OBVIOUS
    <2>1. CASE i \in 1..Len(stack[h]) /\ ~(h = g /\ i = n) /\ stack'[h][i] = stack[h][i]
      BY <2>1
    <2>2. CASE h = g /\ i = n /\ stack'[h][i] = f2
      BY <2>2
    <2>3. CASE h = g /\ i = n + 1 /\ stack'[h][i].phase = "lock"
      BY <2>3 DEF ClsP
    <2> QED BY <2>1, <2>2, <2>3 DEF Shape
  <1>4. \A h \in G : \A i \in 1..Len(stack[h]) : ClsP(stack[h][i], s) = "store" => \E k \in 1..Len(stack'[h]) : ClsP(stack'[h][k], s) = "store"
    <2> SUFFICES ASSUME NEW h \in G, NEW i \in 1..Len(stack[h]), ClsP(stack[h][i], s) = "store"
                 PROVE  \E k \in 1..Len(stack'[h]) : ClsP(stack'[h][k], s) = "store"
      OBVIOUS
    <2>1. CASE ~(h = g /\ i = n)
      BY <2>1 DEF Shape
    <2>2. CASE h = g /\ i = n
      BY <2>2, <1>1, <1>2
    <2> QED BY <2>1, <2>2
  <1> QED BY <1>3, <1>4, NeutralForP

LEMMA BeginEval == ASSUME Inv, EvalInv, NEW g \in G, Begin(g) PROVE EvalInv'
  <1>1. TypeOK
    BY DEF Inv
  <1> DEFINE o == CurOp(g)
             k == IF o.op = "GetParam" THEN "par" ELSE "svc"
             fr == Frame(k, o.id)
  <1>2. stack' = Push(g, fr) /\ ~Busy(g) /\ evals' = evals /\ pcache' = pcache
    BY DEF Begin
  <1>3. pcs[g] \in 1..Len(Ops[g])
    BY <1>1 DEF Begin, TypeOK
  <1>4. fr \in FrameT /\ fr.phase = "lock" /\ fr.inst = 0
    <2>1. o.id \in Keys /\ (k = "svc" => o.id \in Svc) /\ (k = "par" => o.id \in Par)
      BY <1>3, ConstAssump DEF CurOp
    <2> QED BY <2>1, FrameTyped DEF Frame
  <1>5. stack[g] = <<>> /\ Len(stack[g]) = 0
    BY <1>2 DEF Busy
  <1>6. /\ \A h \in G : h # g => stack'[h] = stack[h]
        /\ Len(stack'[g]) = Len(stack[g]) + 1
        /\ stack'[g][Len(stack[g]) + 1] = fr
    BY <1>1, <1>2, <1>4, PushProps
  <1>7. Shape(g, fr) /\ Len(stack[g]) \notin 1..Len(stack'[g])
    BY <1>5, <1>6, <1>4 DEF Shape
  <1>90. evals \in [Par -> Nat] /\ evals' = evals
    BY <1>2 DEF EvalInv
  <1> SUFFICES ASSUME NEW s \in Par PROVE EvalFor(s)'
    BY <1>90 DEF EvalInv
  <1>8. EvalFor(s)
    BY DEF EvalInv
  <1> QED BY <1>1, <1>2, <1>7, <1>8, DropNeutralP

LEMMA LockEval == ASSUME Inv, EvalInv, NEW g \in G, Lock(g) PROVE EvalInv'
  <1>1. TypeOK /\ Busy(g) /\ Top(g).phase = "lock"
    BY DEF Inv, Lock
  <1> DEFINE f2 == [Top(g) EXCEPT !.phase = "check"]
  <1>2. Top(g) \in FrameT
    BY <1>1, BusyLen
  <1>3. f2 \in FrameT /\ stack' = SetTop(g, f2) /\ evals' = evals /\ pcache' = pcache
    BY <1>2 DEF Lock, FrameT, Phases
  <1>4. Shape(g, f2) /\ Len(stack[g]) \in 1..Len(stack'[g]) /\ stack'[g][Len(stack[g])] = f2
    BY <1>1, <1>3, SetTopShape
  <1>90. evals \in [Par -> Nat] /\ evals' = evals
    BY <1>3 DEF EvalInv
  <1> SUFFICES ASSUME NEW s \in Par PROVE EvalFor(s)'
    BY <1>90 DEF EvalInv
  <1>5. EvalFor(s) /\ ClsP(f2, s) = "none" /\ ClsP(Top(g), s) = "none"
    BY <1>1, <1>2 DEF EvalInv, ClsP, FrameT
  <1> QED BY <1>1, <1>3, <1>4, <1>5, RetopNeutralP

LEMMA DepEval == ASSUME Inv, EvalInv, NEW g \in G, Dep(g) PROVE EvalInv'
  <1>1. TypeOK /\ Busy(g) /\ Top(g).phase = "deps"
    BY DEF Inv, Dep
  <1> DEFINE f == Top(g)
             n == Len(stack[g])
             ds == DepsOf[f.id]
  <1>2. f \in FrameT /\ n \in Nat \ {0} /\ f = stack[g][n]
    BY <1>1, BusyLen
  <1>3. evals' = evals /\ pcache' = pcache
    BY DEF Dep
  <1>4. \E f2 \in FrameT : /\ Shape(g, f2) /\ n \in 1..Len(stack'[g]) /\ stack'[g][n] = f2
                           /\ f2.kind = f.kind /\ f2.id = f.id /\ f2.phase \in {"deps", "build"} /\ f2.inst = f.inst
    <2>1. CASE f.dep > Len(ds)
      <3> DEFINE f2 == [f EXCEPT !.phase = "build"]
      <3>1. f2 \in FrameT /\ f2.kind = f.kind /\ f2.id = f.id /\ f2.phase \in {"deps", "build"} /\ f2.inst = f.inst
        BY <1>2 DEF FrameT, Phases
      <3>2. stack' = SetTop(g, f2)
        BY <2>1 DEF Dep
      <3> QED BY <1>1, <3>1, <3>2, SetTopShape
    <2>2. CASE ~(f.dep > Len(ds))
      <3> DEFINE f2 == [f EXCEPT !.dep = f.dep + 1]
                 d == ds[f.dep]
                 fr == Frame(d[1], d[2])
                 mid == [stack[g] EXCEPT ![n] = f2]
      <3>1. f.id \in Keys /\ f.dep \in Nat \ {0} /\ ds \in Seq({"svc", "par"} \X Keys)
        BY <1>2, ConstAssump DEF FrameT
      <3>2. f.dep \in 1..Len(ds)
        BY <2>2, <3>1, LenProperties
      <3>3. d \in {"svc", "par"} \X Keys /\ (d[1] = "svc" => d[2] \in Svc) /\ (d[1] = "par" => d[2] \in Par)
        BY <3>1, <3>2, ConstAssump, ElementOfSeq
      <3>4. fr \in FrameT /\ fr.phase = "lock" /\ fr.inst = 0
        BY <3>3, FrameTyped DEF Frame
      <3>5. f2 \in FrameT /\ f2.kind = f.kind /\ f2.id = f.id /\ f2.phase \in {"deps", "build"} /\ f2.inst = f.inst
        BY <1>1, <1>2 DEF FrameT
      <3>6. stack' = [stack EXCEPT ![g] = Append(mid, fr)]
        BY <2>2 DEF Dep
      <3>7. stack[g] \in Seq(FrameT) /\ stack \in [G -> Seq(FrameT)]
        BY <1>1 DEF TypeOK
      <3>8. mid \in Seq(FrameT) /\ Len(mid) = n /\ \A i \in 1..n : mid[i] = IF i = n THEN f2 ELSE stack[g][i]
        BY <3>7, <3>5, <1>2, ExceptSeq
      <3>9. /\ Append(mid, fr) \in Seq(FrameT) /\ Len(Append(mid, fr)) = n + 1
            /\ \A i \in 1..n : Append(mid, fr)[i] = mid[i]
            /\ Append(mid, fr)[n + 1] = fr
        BY <3>8, <3>4, AppendProperties
      <3>10. /\ \A h \in G : h # g => stack'[h] = stack[h]
             /\ Len(stack'[g]) = n + 1
             /\ \A i \in 1..n : i # n => stack'[g][i] = stack[g][i]
             /\ stack'[g][n] = f2 /\ stack'[g][n + 1] = fr
        BY <3>6, <3>7, <3>8, <3>9, <1>2
      <3>11. Shape(g, f2) /\ n \in 1..Len(stack'[g])
        BY <3>10, <3>4, <1>2 DEF Shape
      <3> QED BY <3>5, <3>10, <3>11
    <2> QED BY <2>1, <2>2
  <1>90. evals \in [Par -> Nat] /\ evals' = evals
    BY <1>3 DEF EvalInv
  <1> SUFFICES ASSUME NEW s \in Par PROVE EvalFor(s)'
    BY <1>90 DEF EvalInv
  <1>5. EvalFor(s)
    BY DEF EvalInv
  <1>6. PICK f2 \in FrameT : /\ Shape(g, f2) /\ n \in 1..Len(stack'[g]) /\ stack'[g][n] = f2
                            /\ f2.kind = f.kind /\ f2.id = f.id /\ f2.phase \in {"deps", "build"} /\ f2.inst = f.inst
    BY <1>4
  <1>7. ClsP(f2, s) = ClsP(f, s)
    BY <1>6, <1>1 DEF ClsP, IsParFrame
  <1> QED BY <1>1, <1>3, <1>5, <1>6, <1>7, RetopNeutralP

LEMMA UnlockEval == ASSUME Inv, EvalInv, NEW g \in G, Unlock(g) PROVE EvalInv'
  <1>1. TypeOK /\ Busy(g) /\ Top(g).phase = "unlock"
    BY DEF Inv, Unlock
  <1> DEFINE f == Top(g)
             n == Len(stack[g])
             f2 == [f EXCEPT !.phase = "return"]
  <1>2. f \in FrameT /\ n \in Nat \ {0}
    BY <1>1, BusyLen
  <1>3. f2 \in FrameT /\ evals' = evals /\ pcache' = pcache /\ f2.phase = "return"
    BY <1>2 DEF Unlock, FrameT, Phases
  <1>90. evals \in [Par -> Nat] /\ evals' = evals
    BY <1>3 DEF EvalInv
  <1> SUFFICES ASSUME NEW s \in Par PROVE EvalFor(s)'
    BY <1>90 DEF EvalInv
  <1>4. EvalFor(s) /\ ClsP(f2, s) = "none" /\ ClsP(f, s) = "none"
    BY <1>1, <1>3 DEF EvalInv, ClsP
  <1>5. CASE n = 1
    <2>1. stack' = SetTop(g, f2)
      BY <1>5 DEF Unlock
    <2>2. Shape(g, f2) /\ n \in 1..Len(stack'[g]) /\ stack'[g][n] = f2
      BY <1>1, <1>3, <2>1, SetTopShape
    <2> QED BY <1>1, <1>3, <1>4, <2>2, RetopNeutralP
  <1>6. CASE n # 1
    <2>1. stack' = Pop(g)
      BY <1>6 DEF Unlock
    <2>2. Shape(g, f2) /\ n \notin 1..Len(stack'[g])
      BY <1>1, <2>1, PopShape
    <2> QED BY <1>1, <1>3, <1>4, <2>2, DropNeutralP
  <1> QED BY <1>5, <1>6

LEMMA ReturnEval == ASSUME Inv, EvalInv, NEW g \in G, Return(g) PROVE EvalInv'
  <1>1. TypeOK /\ Busy(g) /\ Top(g).phase = "return"
    BY DEF Inv, Return
  <1>2. stack' = Pop(g) /\ evals' = evals /\ pcache' = pcache
    BY DEF Return
  <1>3. Shape(g, Top(g)) /\ Len(stack[g]) \notin 1..Len(stack'[g])
    BY <1>1, <1>2, PopShape
  <1>90. evals \in [Par -> Nat] /\ evals' = evals
    BY <1>2 DEF EvalInv
  <1> SUFFICES ASSUME NEW s \in Par PROVE EvalFor(s)'
    BY <1>90 DEF EvalInv
  <1>4. EvalFor(s) /\ ClsP(Top(g), s) = "none"
    BY <1>1 DEF EvalInv, ClsP
  <1> QED BY <1>1, <1>2, <1>3, <1>4, DropNeutralP

LEMMA CheckEval == ASSUME Inv, EvalInv, NEW g \in G, Check(g) PROVE EvalInv'
  <1>1. TypeOK /\ Busy(g) /\ Top(g).phase = "check"
    BY DEF Inv, Check
  <1> DEFINE f == Top(g)
             n == Len(stack[g])
             f2 == IF Cached(g) # 0 THEN [f EXCEPT !.phase = "unlock", !.inst = Cached(g)] ELSE [f EXCEPT !.phase = "deps"]
  <1>2. f \in FrameT /\ Cached(g) \in Nat /\ n \in Nat \ {0} /\ f = stack[g][n]
    BY <1>1, BusyLen, CachedNat
  <1>3. f2 \in FrameT /\ stack' = SetTop(g, f2) /\ evals' = evals /\ pcache' = pcache /\ f2.kind = f.kind /\ f2.id = f.id
    BY <1>2 DEF Check, FrameT, Phases
  <1>4. Shape(g, f2) /\ n \in 1..Len(stack'[g]) /\ stack'[g][n] = f2
    BY <1>1, <1>3, SetTopShape
  <1>90. evals \in [Par -> Nat] /\ evals' = evals
    BY <1>3 DEF EvalInv
  <1> SUFFICES ASSUME NEW s \in Par PROVE EvalFor(s)'
    BY <1>90 DEF EvalInv
  <1>5. EvalFor(s) /\ ClsP(f, s) = "none"
    BY <1>1 DEF EvalInv, ClsP
  <1>6. CASE ~(IsParFrame(f, s) /\ Cached(g) = 0)
    <2>1. ClsP(f2, s) = "none"
      <3>1. CASE Cached(g) # 0
        <4>1. f2.phase = "unlock"
          BY <3>1, <1>2 DEF FrameT
        <4> QED BY <4>1 DEF ClsP
      <3>2. CASE Cached(g) = 0
        <4>1. ~IsParFrame(f2, s)
          BY <3>2, <1>6, <1>3 DEF IsParFrame
        <4> QED BY <4>1 DEF ClsP
      <3> QED BY <3>1, <3>2
    <2> QED BY <1>1, <1>3, <1>4, <1>5, <2>1, RetopNeutralP
  <1>7. CASE IsParFrame(f, s) /\ Cached(g) = 0
    <2>1. ~pcache[s] /\ f2.phase = "deps" /\ ClsP(f2, s) = "early"
      <3>1. f.kind = "par" /\ f.id = s /\ pcache[s] \in BOOLEAN
        BY <1>7, <1>1 DEF IsParFrame, TypeOK
      <3>2. ~pcache[s]
        BY <3>1, <1>7 DEF Cached
      <3> QED BY <3>1, <3>2, <1>7, <1>2, <1>3 DEF IsParFrame, ClsP, FrameT
    <2>2. \A h \in G : \A i \in 1..Len(stack[h]) : ~(h = g /\ i = n) => ClsP(stack[h][i], s) = "none"
      <3> SUFFICES ASSUME NEW h \in G, NEW i \in 1..Len(stack[h]), ~(h = g /\ i = n) PROVE ClsP(stack[h][i], s) = "none"
        OBVIOUS
      <3>1. n \in 1..Len(stack[g]) /\ IsParFrame(stack[g][n], s) /\ stack[g][n].phase \in HeldPhases
        BY <1>7, <1>2, <1>1 DEF HeldPhases
      <3> QED BY <3>1, OnlyOneInsideP
    <2>3. \A h \in G : \A i \in 1..Len(stack[h]) : ClsP(stack[h][i], s) = "none"
      BY <2>2, <1>5, <1>2
    <2>4. evals[s] = 0
      BY <2>1, <2>3, <1>5 DEF EvalFor
    <2>5. \A h \in G : \A i \in 1..Len(stack'[h]) : ClsP(stack'[h][i], s) \in {"none", "early"}
      <3> SUFFICES ASSUME NEW h \in G, NEW i \in 1..Len(stack'[h]) PROVE ClsP(stack'[h][i], s) \in {"none", "early"}
        OBVIOUS
      <3>1. CASE i \in 1..Len(stack[h]) /\ ~(h = g /\ i = n) /\ stack'[h][i] = stack[h][i]
        BY <3>1, <2>3
      <3>2. CASE h = g /\ i = n /\ stack'[h][i] = f2
        BY <3>2, <2>1
      <3>3. CASE h = g /\ i = n + 1 /\ stack'[h][i].phase = "lock"
        BY <3>3 DEF ClsP
      <3> QED BY <3>1, <3>2, <3>3, <1>4 DEF Shape
    <2> QED BY <2>1, <2>4, <2>5, <1>3 DEF EvalFor
  <1> QED BY <1>6, <1>7

LEMMA ConstructEval == ASSUME Inv, EvalInv, NEW g \in G, Construct(g) PROVE EvalInv'
  <1>1. TypeOK /\ Busy(g) /\ Top(g).phase = "build"
    BY DEF Inv, Construct
  <1> DEFINE f == Top(g)
             n == Len(stack[g])
             f2 == IF f.kind = "par" THEN [f EXCEPT !.phase = "store", !.inst = 1] ELSE [f EXCEPT !.phase = "store", !.inst = nextInst]
  <1>2. f \in FrameT /\ n \in Nat \ {0} /\ f = stack[g][n] /\ nextInst \in Nat \ {0} /\ evals \in [Par -> Nat]
    BY <1>1, BusyLen DEF TypeOK, EvalInv
  <1>3. f2 \in FrameT /\ stack' = SetTop(g, f2) /\ pcache' = pcache /\ f2.kind = f.kind /\ f2.id = f.id /\ f2.phase = "store"
    BY <1>2 DEF Construct, FrameT, Phases
  <1>4. Shape(g, f2) /\ n \in 1..Len(stack'[g]) /\ stack'[g][n] = f2
    BY <1>1, <1>3, SetTopShape
  <1>90. evals' \in [Par -> Nat]
    <2>1. CASE f.kind = "par"
      <3>1. f.id \in Par /\ evals' = [evals EXCEPT ![f.id] = @ + 1]
        BY <2>1, <1>2 DEF Construct, FrameT
      <3> QED BY <3>1, <1>2
    <2>2. CASE f.kind # "par"
      BY <2>2, <1>2 DEF Construct
    <2> QED BY <2>1, <2>2
  <1> SUFFICES ASSUME NEW s \in Par PROVE EvalFor(s)'
    BY <1>90 DEF EvalInv
  <1>5. EvalFor(s)
    BY DEF EvalInv
  <1>6. CASE ~IsParFrame(f, s)
    <2>1. ClsP(f2, s) = "none" /\ ClsP(f, s) = "none"
      BY <1>6, <1>3 DEF ClsP, IsParFrame
    <2>2. evals'[s] = evals[s]
      <3>1. CASE f.kind = "par"
        <4>1. f.id \in Par /\ f.id # s /\ evals' = [evals EXCEPT ![f.id] = @ + 1]
          BY <3>1, <1>2, <1>6 DEF Construct, FrameT, IsParFrame
        <4> QED BY <4>1, <1>2
      <3>2. CASE f.kind # "par"
        BY <3>2 DEF Construct
      <3> QED BY <3>1, <3>2
    <2> QED BY <1>1, <1>3, <1>4, <1>5, <2>1, <2>2, RetopNeutralP
  <1>7. CASE IsParFrame(f, s)
    <2>1. ClsP(f, s) = "early" /\ evals[s] = 0 /\ ~pcache[s]
      BY <1>7, <1>1, <1>2, <1>5 DEF ClsP, EvalFor
    <2>2. evals'[s] = 1
      <3>1. f.kind = "par" /\ f.id = s /\ evals' = [evals EXCEPT ![f.id] = @ + 1]
        BY <1>7 DEF Construct, IsParFrame
      <3> QED BY <3>1, <2>1, <1>2
    <2>3. \A h \in G : \A i \in 1..Len(stack[h]) : ~(h = g /\ i = n) => ClsP(stack[h][i], s) = "none"
      <3> SUFFICES ASSUME NEW h \in G, NEW i \in 1..Len(stack[h]), ~(h = g /\ i = n) PROVE ClsP(stack[h][i], s) = "none"
        OBVIOUS
      <3>1. n \in 1..Len(stack[g]) /\ IsParFrame(stack[g][n], s) /\ stack[g][n].phase \in HeldPhases
        BY <1>7, <1>2, <1>1 DEF HeldPhases
      <3> QED BY <3>1, OnlyOneInsideP
    <2>4. ClsP(f2, s) = "store"
      BY <1>7, <1>3 DEF ClsP, IsParFrame
    <2>5. \A h \in G : \A i \in 1..Len(stack'[h]) : ClsP(stack'[h][i], s) \in {"none", "store"}
      <3> SUFFICES ASSUME NEW h \in G, NEW i \in 1..Len(stack'[h]) PROVE ClsP(stack'[h][i], s) \in {"none", "store"}
        OBVIOUS
      <3>1. CASE i \in 1..Len(stack[h]) /\ ~(h = g /\ i = n) /\ stack'[h][i] = stack[h][i]
        BY <3>1, <2>3
      <3>2. CASE h = g /\ i = n /\ stack'[h][i] = f2
        BY <3>2, <2>4
      <3>3. CASE h = g /\ i = n + 1 /\ stack'[h][i].phase = "lock"
        BY <3>3 DEF ClsP
      <3> QED BY <3>1, <3>2, <3>3, <1>4 DEF Shape
    <2>6. \E h \in G : \E i \in 1..Len(stack'[h]) : ClsP(stack'[h][i], s) = "store"
      BY <1>4, <2>4
    <2> QED BY <2>1, <2>2, <2>5, <2>6, <1>3 DEF EvalFor
  <1> QED BY <1>6, <1>7

LEMMA StoreEval == ASSUME Inv, EvalInv, NEW g \in G, Store(g) PROVE EvalInv'
  <1>1. TypeOK /\ Busy(g) /\ Top(g).phase = "store"
    BY DEF Inv, Store
  <1> DEFINE f == Top(g)
             n == Len(stack[g])
             f2 == [f EXCEPT !.phase = "unlock"]
  <1>2. f \in FrameT /\ n \in Nat \ {0} /\ f = stack[g][n] /\ pcache \in [Par -> BOOLEAN]
    BY <1>1, BusyLen DEF TypeOK
  <1>3. f2 \in FrameT /\ stack' = SetTop(g, f2) /\ evals' = evals /\ f2.phase = "unlock"
    BY <1>2 DEF Store, FrameT, Phases
  <1>4. Shape(g, f2) /\ n \in 1..Len(stack'[g]) /\ stack'[g][n] = f2
    BY <1>1, <1>3, SetTopShape
  <1>90. evals \in [Par -> Nat] /\ evals' = evals
    BY <1>3 DEF EvalInv
  <1> SUFFICES ASSUME NEW s \in Par PROVE EvalFor(s)'
    BY <1>90 DEF EvalInv
  <1>5. EvalFor(s) /\ ClsP(f2, s) = "none"
    BY <1>3 DEF EvalInv, ClsP
  <1>6. CASE ~IsParFrame(f, s)
    <2>1. ClsP(f, s) = "none"
      BY <1>6 DEF ClsP
    <2>2. pcache'[s] = pcache[s]
      <3>1. CASE f.kind = "par"
        <4>1. f.id \in Par /\ f.id # s /\ pcache' = [pcache EXCEPT ![f.id] = TRUE]
          BY <3>1, <1>2, <1>6 DEF Store, FrameT, IsParFrame
        <4> QED BY <4>1, <1>2
      <3>2. CASE f.kind # "par"
        BY <3>2 DEF Store
      <3> QED BY <3>1, <3>2
    <2> QED BY <1>1, <1>3, <1>4, <1>5, <2>1, <2>2, RetopNeutralP
  <1>7. CASE IsParFrame(f, s)
    <2>1. ClsP(f, s) = "store" /\ evals[s] = 1
      BY <1>7, <1>1, <1>2, <1>5 DEF ClsP, EvalFor
    <2>2. pcache'[s] = TRUE
      <3>1. f.kind = "par" /\ f.id = s /\ pcache' = [pcache EXCEPT ![f.id] = TRUE]
        BY <1>7 DEF Store, IsParFrame
      <3> QED BY <3>1, <1>2
    <2>3. \A h \in G : \A i \in 1..Len(stack[h]) : ~(h = g /\ i = n) => ClsP(stack[h][i], s) = "none"
      <3> SUFFICES ASSUME NEW h \in G, NEW i \in 1..Len(stack[h]), ~(h = g /\ i = n) PROVE ClsP(stack[h][i], s) = "none"
        OBVIOUS
      <3>1. n \in 1..Len(stack[g]) /\ IsParFrame(stack[g][n], s) /\ stack[g][n].phase \in HeldPhases
        BY <1>7, <1>2, <1>1 DEF HeldPhases
      <3> QED BY <3>1, OnlyOneInsideP
    <2>4. \A h \in G : \A i \in 1..Len(stack'[h]) : ClsP(stack'[h][i], s) = "none"
      <3> SUFFICES ASSUME NEW h \in G, NEW i \in 1..Len(stack'[h]) PROVE ClsP(stack'[h][i], s) = "none"
        OBVIOUS
      <3>1. CASE i \in 1..Len(stack[h]) /\ ~(h = g /\ i = n) /\ stack'[h][i] = stack[h][i]
        BY <3>1, <2>3
      <3>2. CASE h = g /\ i = n /\ stack'[h][i] = f2
        BY <3>2, <1>5
      <3>3. CASE h = g /\ i = n + 1 /\ stack'[h][i].phase = "lock"
        BY <3>3 DEF ClsP
      <3> QED BY <3>1, <3>2, <3>3, <1>4 DEF Shape
    <2> QED BY <2>1, <2>2, <2>4, <1>3 DEF EvalFor
  <1> QED BY <1>6, <1>7

THEOREM EvalInductive == Inv /\ EvalInv /\ [CNext]_cvars => EvalInv'
  <1> SUFFICES ASSUME Inv, EvalInv, [CNext]_cvars PROVE EvalInv'
    OBVIOUS
  <1>1. CASE UNCHANGED cvars
    BY <1>1 DEF EvalInv, EvalFor, cvars, ClsP, IsParFrame
  <1>2. ASSUME NEW g \in G, Begin(g) \/ Lock(g) \/ Check(g) \/ Dep(g) \/ Construct(g) \/ Store(g) \/ Unlock(g) \/ Return(g) PROVE EvalInv'
    BY <1>2, BeginEval, LockEval, CheckEval, DepEval, ConstructEval, StoreEval, UnlockEval, ReturnEval
  <1> QED BY <1>1, <1>2 DEF CNext

-----------------------------------------------------------------------------
(* C20, last clause: an instance created for one bag (context) is never handed to an        *)
(* operation of another.  Every instance has its owner fixed when it is constructed; what a  *)
(* frame, a bag or the shared cache holds has the owner its place demands, and no place     *)
(* holds an instance number that has not been handed out yet.                               *)
ExpK(fr, key) == IF ScopeOf[fr.id] = "contextual" THEN key ELSE ""
Exp(fr, g) == ExpK(fr, BagKey(g))
InstBound ==
  /\ DOMAIN owner \subseteq 1..(nextInst - 1)
  /\ \A g \in G : \A i \in 1..Len(stack[g]) : stack[g][i].kind = "svc" => stack[g][i].inst < nextInst
  /\ \A k \in DOMAIN bags : \A x \in DOMAIN bags[k] : bags[k][x] < nextInst
  /\ \A x \in Svc : shared[x] < nextInst
  /\ \A r \in returned : r.kind = "svc" => (r.inst \in Nat /\ r.inst < nextInst)
OwnerInv ==
  /\ \A g \in G : \A i \in 1..Len(stack[g]) :
        (stack[g][i].kind = "svc" /\ stack[g][i].inst \in DOMAIN owner) => owner[stack[g][i].inst] = Exp(stack[g][i], g)
  /\ \A k \in DOMAIN bags : \A x \in DOMAIN bags[k] : bags[k][x] \in DOMAIN owner => owner[bags[k][x]] = k
  /\ \A x \in Svc : shared[x] \in DOMAIN owner => owner[shared[x]] = ""
  /\ ContextIsolation
CtxInv == InstBound /\ OwnerInv

THEOREM CtxImplies == CtxInv => ContextIsolation
  BY DEF CtxInv, OwnerInv

LEMMA InitCtx == CInit => CtxInv
  <1> SUFFICES ASSUME CInit PROVE CtxInv
    OBVIOUS
  <1>1. DOMAIN owner = {} /\ DOMAIN bags = {} /\ returned = {} /\ nextInst = 1 /\ \A x \in Svc : shared[x] = 0
    BY DEF CInit
  <1>2. \A g \in G : Len(stack[g]) = 0
    BY DEF CInit
  <1> QED BY <1>1, <1>2 DEF CtxInv, InstBound, OwnerInv, ContextIsolation

(* the bag of an operation does not change while the operation index of its goroutine stays *)
LEMMA BagKeyStable == ASSUME NEW h \in G, pcs'[h] = pcs[h] PROVE BagKey(h)' = BagKey(h)
  BY DEF BagKey, CurOp

(* a step that creates no instance, leaves the caches and the results alone and keeps or replaces the top frame by one with an *)
(* admissible instance                                                                                                        *)
LEMMA CtxStep ==
  ASSUME TypeOK, CtxInv, NEW g \in G, NEW f2, Shape(g, f2),
         owner' = owner, nextInst' = nextInst, bags' = bags, shared' = shared, returned' = returned, pcs' = pcs,
         Len(stack[g]) \in 1..Len(stack'[g]) =>
             (f2.kind = "svc" => (f2.inst < nextInst /\ (f2.inst \in DOMAIN owner => owner[f2.inst] = Exp(f2, g))))
  PROVE  CtxInv'
  <1>1. InstBound /\ OwnerInv /\ nextInst \in Nat \ {0}
    BY DEF CtxInv, TypeOK
  <1>2. \A h \in G : BagKey(h)' = BagKey(h)
    BY BagKeyStable
  <1>3. \A h \in G : \A i \in 1..Len(stack'[h]) : stack'[h][i].kind = "svc" =>
            /\ stack'[h][i].inst < nextInst
            /\ stack'[h][i].inst \in DOMAIN owner => owner[stack'[h][i].inst] = Exp(stack'[h][i], h)
    <2> SUFFICES ASSUME NEW h \in G, NEW i \in 1..Len(stack'[h]), stack'[h][i].kind = "svc"
                 PROVE  /\ stack'[h][i].inst < nextInst
                        /\ stack'[h][i].inst \in DOMAIN owner => owner[stack'[h][i].inst] = Exp(stack'[h][i], h)
      OBVIOUS
    <2>1. CASE i \in 1..Len(stack[h]) /\ ~(h = g /\ i = Len(stack[g])) /\ stack'[h][i] = stack[h][i]
      BY <2>1, <1>1 DEF InstBound, OwnerInv
    <2>2. CASE h = g /\ i = Len(stack[g]) /\ stack'[h][i] = f2
      BY <2>2
    <2>3. CASE h = g /\ i = Len(stack[g]) + 1 /\ stack'[h][i].phase = "lock" /\ stack'[h][i].inst = 0
      BY <2>3, <1>1 DEF InstBound
    <2> QED BY <2>1, <2>2, <2>3 DEF Shape
  <1>4. InstBound'
    BY <1>1, <1>3 DEF InstBound
  <1>5. OwnerInv'
    <2>1. \A h \in G : \A i \in 1..Len(stack'[h]) :
             (stack'[h][i].kind = "svc" /\ stack'[h][i].inst \in DOMAIN owner') => owner'[stack'[h][i].inst] = ExpK(stack'[h][i], BagKey(h)')
      BY <1>3, <1>2 DEF Exp
    <2>2. ContextIsolation'
      BY <1>1 DEF OwnerInv, ContextIsolation
    <2> QED BY <1>1, <2>1, <2>2 DEF OwnerInv, Exp
  <1> QED BY <1>4, <1>5 DEF CtxInv

LEMMA TopFacts == ASSUME TypeOK, CtxInv, NEW g \in G, Busy(g)
                  PROVE  Top(g).kind = "svc" => (Top(g).inst < nextInst /\ (Top(g).inst \in DOMAIN owner => owner[Top(g).inst] = Exp(Top(g), g)))
  <1>1. Len(stack[g]) \in 1..Len(stack[g]) /\ Top(g) = stack[g][Len(stack[g])]
    BY BusyLen
  <1> QED BY <1>1 DEF CtxInv, InstBound, OwnerInv

LEMMA BeginCtx == ASSUME Inv, CtxInv, NEW g \in G, Begin(g) PROVE CtxInv'
  <1>1. TypeOK
    BY DEF Inv
  <1> DEFINE o == CurOp(g)
             k == IF o.op = "GetParam" THEN "par" ELSE "svc"
             fr == Frame(k, o.id)
  <1>2. stack' = Push(g, fr) /\ ~Busy(g) /\ UNCHANGED <<pcs, locks, shared, bags, pcache, nextInst, built, evals, owner, returned>>
    BY DEF Begin
  <1>3. pcs[g] \in 1..Len(Ops[g])
    BY <1>1 DEF Begin, TypeOK
  <1>4. fr \in FrameT /\ fr.phase = "lock" /\ fr.inst = 0
    <2>1. o.id \in Keys /\ (k = "svc" => o.id \in Svc) /\ (k = "par" => o.id \in Par)
      BY <1>3, ConstAssump DEF CurOp
    <2> QED BY <2>1, FrameTyped DEF Frame
  <1>5. stack[g] = <<>> /\ Len(stack[g]) = 0
    BY <1>2 DEF Busy
  <1>6. /\ \A h \in G : h # g => stack'[h] = stack[h]
        /\ Len(stack'[g]) = Len(stack[g]) + 1
        /\ stack'[g][Len(stack[g]) + 1] = fr
    BY <1>1, <1>2, <1>4, PushProps
  <1>7. Shape(g, fr) /\ Len(stack[g]) \notin 1..Len(stack'[g])
    BY <1>5, <1>6, <1>4 DEF Shape
  <1> QED BY <1>1, <1>2, <1>7, CtxStep

LEMMA LockCtx == ASSUME Inv, CtxInv, NEW g \in G, Lock(g) PROVE CtxInv'
  <1>1. TypeOK /\ Busy(g)
    BY DEF Inv, Lock
  <1> DEFINE f2 == [Top(g) EXCEPT !.phase = "check"]
  <1>2. Top(g) \in FrameT
    BY <1>1, BusyLen
  <1>3. f2 \in FrameT /\ stack' = SetTop(g, f2) /\ f2.kind = Top(g).kind /\ f2.id = Top(g).id /\ f2.inst = Top(g).inst
        /\ UNCHANGED <<pcs, shared, bags, nextInst, owner, returned>>
    BY <1>2 DEF Lock, FrameT, Phases
  <1>4. Shape(g, f2)
    BY <1>1, <1>3, SetTopShape
  <1>5. f2.kind = "svc" => (f2.inst < nextInst /\ (f2.inst \in DOMAIN owner => owner[f2.inst] = Exp(f2, g)))
    BY <1>1, <1>3, TopFacts DEF Exp, ExpK
  <1> QED BY <1>1, <1>3, <1>4, <1>5, CtxStep

LEMMA CheckCtx == ASSUME Inv, CtxInv, NEW g \in G, Check(g) PROVE CtxInv'
  <1>1. TypeOK /\ Busy(g)
    BY DEF Inv, Check
  <1> DEFINE f == Top(g)
             f2 == IF Cached(g) # 0 THEN [f EXCEPT !.phase = "unlock", !.inst = Cached(g)] ELSE [f EXCEPT !.phase = "deps"]
  <1>2. f \in FrameT /\ Cached(g) \in Nat
    BY <1>1, BusyLen, CachedNat
  <1>3. f2 \in FrameT /\ stack' = SetTop(g, f2) /\ f2.kind = f.kind /\ f2.id = f.id
        /\ UNCHANGED <<pcs, shared, bags, nextInst, owner, returned>>
    BY <1>2 DEF Check, FrameT, Phases
  <1>4. Shape(g, f2)
    BY <1>1, <1>3, SetTopShape
  <1>5. f2.kind = "svc" => (f2.inst < nextInst /\ (f2.inst \in DOMAIN owner => owner[f2.inst] = Exp(f2, g)))
    <2> SUFFICES ASSUME f2.kind = "svc" PROVE f2.inst < nextInst /\ (f2.inst \in DOMAIN owner => owner[f2.inst] = Exp(f2, g))
      OBVIOUS
    <2>1. f.kind = "svc" /\ f.id \in Svc
      BY <1>2, <1>3 DEF FrameT
    <2>2. CASE Cached(g) = 0
      <3>1. f2.inst = f.inst
        BY <2>2, <1>2 DEF FrameT
      <3> QED BY <3>1, <2>1, <1>1, <1>3, TopFacts DEF Exp, ExpK
    <2>3. CASE Cached(g) # 0 /\ ScopeOf[f.id] = "shared"
      <3>1. f2.inst = shared[f.id]
        BY <2>3, <2>1, <1>2 DEF Cached, FrameT
      <3>2. shared[f.id] < nextInst /\ (shared[f.id] \in DOMAIN owner => owner[shared[f.id]] = "")
        BY <2>1 DEF CtxInv, InstBound, OwnerInv
      <3> QED BY <3>1, <3>2, <2>3, <1>3 DEF Exp, ExpK
    <2>4. CASE Cached(g) # 0 /\ ScopeOf[f.id] # "shared"
      <3>1. ScopeOf[f.id] = "contextual" /\ f.id \in DOMAIN BagOf(BagKey(g)) /\ f2.inst = BagOf(BagKey(g))[f.id]
        BY <2>4, <2>1, <1>2 DEF Cached, FrameT
      <3>2. BagKey(g) \in DOMAIN bags /\ BagOf(BagKey(g)) = bags[BagKey(g)]
        BY <3>1 DEF BagOf
      <3>3. bags[BagKey(g)][f.id] < nextInst /\ (bags[BagKey(g)][f.id] \in DOMAIN owner => owner[bags[BagKey(g)][f.id]] = BagKey(g))
        BY <3>1, <3>2 DEF CtxInv, InstBound, OwnerInv
      <3> QED BY <3>1, <3>2, <3>3, <1>3 DEF Exp, ExpK
    <2> QED BY <2>2, <2>3, <2>4
  <1> QED BY <1>1, <1>3, <1>4, <1>5, CtxStep

LEMMA DepCtx == ASSUME Inv, CtxInv, NEW g \in G, Dep(g) PROVE CtxInv'
  <1>1. TypeOK /\ Busy(g) /\ Top(g).phase = "deps"
    BY DEF Inv, Dep
  <1> DEFINE f == Top(g)
             n == Len(stack[g])
             ds == DepsOf[f.id]
  <1>2. f \in FrameT /\ n \in Nat \ {0} /\ f = stack[g][n]
    BY <1>1, BusyLen
  <1>3. UNCHANGED <<pcs, shared, bags, nextInst, owner, returned>>
    BY DEF Dep
  <1>4. \E f2 \in FrameT : /\ Shape(g, f2) /\ f2.kind = f.kind /\ f2.id = f.id /\ f2.inst = f.inst
    <2>1. CASE f.dep > Len(ds)
      <3> DEFINE f2 == [f EXCEPT !.phase = "build"]
      <3>1. f2 \in FrameT /\ f2.kind = f.kind /\ f2.id = f.id /\ f2.inst = f.inst
        BY <1>2 DEF FrameT, Phases
      <3>2. stack' = SetTop(g, f2)
        BY <2>1 DEF Dep
      <3> QED BY <1>1, <3>1, <3>2, SetTopShape
    <2>2. CASE ~(f.dep > Len(ds))
      <3> DEFINE f2 == [f EXCEPT !.dep = f.dep + 1]
                 d == ds[f.dep]
                 fr == Frame(d[1], d[2])
                 mid == [stack[g] EXCEPT ![n] = f2]
      <3>1. f.id \in Keys /\ f.dep \in Nat \ {0} /\ ds \in Seq({"svc", "par"} \X Keys)
        BY <1>2, ConstAssump DEF FrameT
      <3>2. f.dep \in 1..Len(ds)
        BY <2>2, <3>1, LenProperties
      <3>3. d \in {"svc", "par"} \X Keys /\ (d[1] = "svc" => d[2] \in Svc) /\ (d[1] = "par" => d[2] \in Par)
        BY <3>1, <3>2, ConstAssump, ElementOfSeq
      <3>4. fr \in FrameT /\ fr.phase = "lock" /\ fr.inst = 0
        BY <3>3, FrameTyped DEF Frame
      <3>5. f2 \in FrameT /\ f2.kind = f.kind /\ f2.id = f.id /\ f2.inst = f.inst
        BY <1>1, <1>2 DEF FrameT
      <3>6. stack' = [stack EXCEPT ![g] = Append(mid, fr)]
        BY <2>2 DEF Dep
      <3>7. stack[g] \in Seq(FrameT) /\ stack \in [G -> Seq(FrameT)]
        BY <1>1 DEF TypeOK
      <3>8. mid \in Seq(FrameT) /\ Len(mid) = n /\ \A i \in 1..n : mid[i] = IF i = n THEN f2 ELSE stack[g][i]
        BY <3>7, <3>5, <1>2, ExceptSeq
      <3>9. /\ Append(mid, fr) \in Seq(FrameT) /\ Len(Append(mid, fr)) = n + 1
            /\ \A i \in 1..n : Append(mid, fr)[i] = mid[i]
            /\ Append(mid, fr)[n + 1] = fr
        BY <3>8, <3>4, AppendProperties
      <3>10. /\ \A h \in G : h # g => stack'[h] = stack[h]
             /\ Len(stack'[g]) = n + 1
             /\ \A i \in 1..n : i # n => stack'[g][i] = stack[g][i]
             /\ stack'[g][n] = f2 /\ stack'[g][n + 1] = fr
        BY <3>6, <3>7, <3>8, <3>9, <1>2
      <3>11. Shape(g, f2)
        BY <3>10, <3>4, <1>2 DEF Shape
      <3> QED BY <3>5, <3>11
    <2> QED BY <2>1, <2>2
  <1>5. PICK f2 \in FrameT : Shape(g, f2) /\ f2.kind = f.kind /\ f2.id = f.id /\ f2.inst = f.inst
    BY <1>4
  <1>6. f2.kind = "svc" => (f2.inst < nextInst /\ (f2.inst \in DOMAIN owner => owner[f2.inst] = Exp(f2, g)))
    BY <1>1, <1>5, TopFacts DEF Exp, ExpK
  <1> QED BY <1>1, <1>3, <1>5, <1>6, CtxStep

LEMMA UnlockCtx == ASSUME Inv, CtxInv, NEW g \in G, Unlock(g) PROVE CtxInv'
  <1>1. TypeOK /\ Busy(g)
    BY DEF Inv, Unlock
  <1> DEFINE f == Top(g)
             n == Len(stack[g])
             f2 == [f EXCEPT !.phase = "return"]
  <1>2. f \in FrameT /\ n \in Nat \ {0}
    BY <1>1, BusyLen
  <1>3. f2 \in FrameT /\ f2.kind = f.kind /\ f2.id = f.id /\ f2.inst = f.inst /\ UNCHANGED <<pcs, shared, bags, nextInst, owner, returned>>
    BY <1>2 DEF Unlock, FrameT, Phases
  <1>4. f2.kind = "svc" => (f2.inst < nextInst /\ (f2.inst \in DOMAIN owner => owner[f2.inst] = Exp(f2, g)))
    BY <1>1, <1>3, TopFacts DEF Exp, ExpK
  <1>5. Shape(g, f2)
    <2>1. CASE n = 1
      <3>1. stack' = SetTop(g, f2)
        BY <2>1 DEF Unlock
      <3> QED BY <1>1, <1>3, <3>1, SetTopShape
    <2>2. CASE n # 1
      <3>1. stack' = Pop(g)
        BY <2>2 DEF Unlock
      <3> QED BY <1>1, <3>1, PopShape
    <2> QED BY <2>1, <2>2
  <1> QED BY <1>1, <1>3, <1>4, <1>5, CtxStep

LEMMA ConstructCtx == ASSUME Inv, CtxInv, NEW g \in G, Construct(g) PROVE CtxInv'
  <1>1. TypeOK /\ Busy(g)
    BY DEF Inv, Construct
  <1> DEFINE f == Top(g)
             n == Len(stack[g])
  <1>2. f \in FrameT /\ n \in Nat \ {0} /\ f = stack[g][n] /\ nextInst \in Nat \ {0}
    BY <1>1, BusyLen DEF TypeOK
  <1>3. CASE f.kind = "par"
    <2> DEFINE f2 == [f EXCEPT !.phase = "store", !.inst = 1]
    <2>1. f2 \in FrameT /\ stack' = SetTop(g, f2) /\ f2.kind = "par" /\ UNCHANGED <<pcs, shared, bags, nextInst, owner, returned>>
      BY <1>3, <1>2 DEF Construct, FrameT, Phases
    <2>2. Shape(g, f2)
      BY <1>1, <2>1, SetTopShape
    <2> QED BY <1>1, <2>1, <2>2, CtxStep
  <1>4. CASE f.kind # "par"
    <2> DEFINE f2 == [f EXCEPT !.phase = "store", !.inst = nextInst]
               ow == IF ScopeOf[f.id] = "contextual" THEN BagKey(g) ELSE ""
    <2>1. /\ f2 \in FrameT /\ stack' = SetTop(g, f2) /\ f2.kind = "svc" /\ f2.id = f.id /\ f2.inst = nextInst
          /\ nextInst' = nextInst + 1
          /\ owner' = [i \in (DOMAIN owner) \cup {nextInst} |-> IF i = nextInst THEN ow ELSE owner[i]]
          /\ UNCHANGED <<pcs, shared, bags, returned>>
      BY <1>4, <1>2 DEF Construct, FrameT, Phases
    <2>2. Shape(g, f2) /\ n \in 1..Len(stack'[g]) /\ stack'[g][n] = f2
      BY <1>1, <2>1, SetTopShape
    <2>3. InstBound /\ OwnerInv
      BY DEF CtxInv
    <2>4. DOMAIN owner' = (DOMAIN owner) \cup {nextInst} /\ owner'[nextInst] = ow
          /\ \A x \in DOMAIN owner : x # nextInst /\ owner'[x] = owner[x]
      BY <2>1, <2>3, <1>2 DEF InstBound
    <2>5. \A h \in G : BagKey(h)' = BagKey(h)
      BY <2>1, BagKeyStable
    (* every instance number in use is below nextInst: its owner is what it was *)
    <2>6. \A x \in Nat : x < nextInst => ((x \in DOMAIN owner' <=> x \in DOMAIN owner) /\ (x \in DOMAIN owner => owner'[x] = owner[x]))
      BY <2>4, <1>2
    <2>7. \A h \in G : \A i \in 1..Len(stack'[h]) : stack'[h][i].kind = "svc" =>
              /\ stack'[h][i].inst < nextInst + 1
              /\ stack'[h][i].inst \in DOMAIN owner' => owner'[stack'[h][i].inst] = ExpK(stack'[h][i], BagKey(h))
      <3> SUFFICES ASSUME NEW h \in G, NEW i \in 1..Len(stack'[h]), stack'[h][i].kind = "svc"
                   PROVE  /\ stack'[h][i].inst < nextInst + 1
                          /\ stack'[h][i].inst \in DOMAIN owner' => owner'[stack'[h][i].inst] = ExpK(stack'[h][i], BagKey(h))
        OBVIOUS
      <3>1. CASE i \in 1..Len(stack[h]) /\ ~(h = g /\ i = n) /\ stack'[h][i] = stack[h][i]
        <4>1. stack[h][i] \in FrameT
          BY <3>1, <1>1, ElementOfSeq DEF TypeOK
        <4>2. stack[h][i].inst \in Nat /\ stack[h][i].inst < nextInst
              /\ (stack[h][i].inst \in DOMAIN owner => owner[stack[h][i].inst] = Exp(stack[h][i], h))
          BY <3>1, <4>1, <2>3 DEF InstBound, OwnerInv, FrameT
        <4> QED BY <3>1, <4>2, <2>6, <1>2 DEF Exp
      <3>2. CASE h = g /\ i = n /\ stack'[h][i] = f2
        BY <3>2, <2>1, <2>4, <1>2 DEF ExpK
      <3>3. CASE h = g /\ i = n + 1 /\ stack'[h][i].phase = "lock" /\ stack'[h][i].inst = 0
        BY <3>3, <2>3, <2>4, <1>2 DEF InstBound
      <3> QED BY <3>1, <3>2, <3>3, <2>2 DEF Shape
    <2>8. InstBound'
      <3>1. DOMAIN owner' \subseteq 1..(nextInst' - 1)
        BY <2>1, <2>3, <2>4, <1>2 DEF InstBound
      <3>2. \A h \in G : \A i \in 1..Len(stack'[h]) : stack'[h][i].kind = "svc" => stack'[h][i].inst < nextInst'
        BY <2>7, <2>1
      <3>3. /\ \A k \in DOMAIN bags' : \A x \in DOMAIN bags'[k] : bags'[k][x] < nextInst'
            /\ \A x \in Svc : shared'[x] < nextInst'
            /\ \A r \in returned' : r.kind = "svc" => (r.inst \in Nat /\ r.inst < nextInst')
        <4>1. /\ \A k \in DOMAIN bags : \A x \in DOMAIN bags[k] : bags[k][x] \in Nat
              /\ \A x \in Svc : shared[x] \in Nat
          BY <1>1 DEF TypeOK, BagsOK
        <4> QED BY <4>1, <2>1, <2>3, <1>2 DEF InstBound
      <3> QED BY <3>1, <3>2, <3>3 DEF InstBound
    <2>9. OwnerInv'
      <3>1. \A h \in G : \A i \in 1..Len(stack'[h]) :
               (stack'[h][i].kind = "svc" /\ stack'[h][i].inst \in DOMAIN owner') => owner'[stack'[h][i].inst] = ExpK(stack'[h][i], BagKey(h)')
        BY <2>7, <2>5
      <3>2. \A k \in DOMAIN bags' : \A x \in DOMAIN bags'[k] : bags'[k][x] \in DOMAIN owner' => owner'[bags'[k][x]] = k
        <4>1. \A k \in DOMAIN bags : \A x \in DOMAIN bags[k] : bags[k][x] \in Nat /\ bags[k][x] < nextInst
          BY <1>1, <2>3 DEF TypeOK, BagsOK, InstBound
        <4> QED BY <4>1, <2>1, <2>3, <2>6 DEF OwnerInv
      <3>3. \A x \in Svc : shared'[x] \in DOMAIN owner' => owner'[shared'[x]] = ""
        <4>1. \A x \in Svc : shared[x] \in Nat /\ shared[x] < nextInst
          BY <1>1, <2>3 DEF TypeOK, InstBound
        <4> QED BY <4>1, <2>1, <2>3, <2>6 DEF OwnerInv
      <3>4. ContextIsolation'
        <4>1. \A r \in returned : r.kind = "svc" => (r.inst \in Nat /\ r.inst < nextInst)
          BY <2>3 DEF InstBound
        <4>2. ContextIsolation
          BY <2>3 DEF OwnerInv
        <4> QED BY <4>1, <4>2, <2>1, <2>6 DEF ContextIsolation
      <3> QED BY <3>1, <3>2, <3>3, <3>4 DEF OwnerInv, Exp
    <2> QED BY <2>8, <2>9 DEF CtxInv
  <1> QED BY <1>3, <1>4

LEMMA StoreCtx == ASSUME Inv, CtxInv, NEW g \in G, Store(g) PROVE CtxInv'
  <1>1. TypeOK /\ Busy(g)
    BY DEF Inv, Store
  <1> DEFINE f == Top(g)
             n == Len(stack[g])
             f2 == [f EXCEPT !.phase = "unlock"]
  <1>2. f \in FrameT /\ n \in Nat \ {0} /\ f = stack[g][n] /\ nextInst \in Nat \ {0}
    BY <1>1, BusyLen DEF TypeOK
  <1>3. f2 \in FrameT /\ stack' = SetTop(g, f2) /\ f2.kind = f.kind /\ f2.id = f.id /\ f2.inst = f.inst
        /\ UNCHANGED <<pcs, nextInst, owner, returned>>
    BY <1>2 DEF Store, FrameT, Phases
  <1>4. Shape(g, f2)
    BY <1>1, <1>3, SetTopShape
  <1>5. f.kind = "svc" => (f.inst < nextInst /\ (f.inst \in DOMAIN owner => owner[f.inst] = Exp(f, g)))
    BY <1>1, TopFacts
  <1>6. f2.kind = "svc" => (f2.inst < nextInst /\ (f2.inst \in DOMAIN owner => owner[f2.inst] = Exp(f2, g)))
    BY <1>3, <1>5 DEF Exp, ExpK
  <1>7. CASE f.kind = "par" \/ (ScopeOf[f.id] # "shared" /\ ScopeOf[f.id] # "contextual")
    <2>1. bags' = bags /\ shared' = shared
      BY <1>7 DEF Store
    <2> QED BY <1>1, <1>3, <1>4, <1>6, <2>1, CtxStep
  <1>8. CASE f.kind # "par" /\ ScopeOf[f.id] = "shared"
    <2>1. f.id \in Svc /\ f.kind = "svc" /\ shared' = [shared EXCEPT ![f.id] = f.inst] /\ bags' = bags
      BY <1>8, <1>2 DEF Store, FrameT
    <2>2. InstBound /\ OwnerInv /\ shared \in [Svc -> Nat]
      BY <1>1 DEF CtxInv, TypeOK
    <2>3. \A x \in Svc : shared'[x] = IF x = f.id THEN f.inst ELSE shared[x]
      BY <2>1, <2>2
    <2>4. \A x \in Svc : shared'[x] < nextInst /\ (shared'[x] \in DOMAIN owner => owner[shared'[x]] = "")
      BY <2>3, <2>2, <2>1, <1>5, <1>8 DEF InstBound, OwnerInv, Exp, ExpK
    <2>5. \A h \in G : \A i \in 1..Len(stack'[h]) : stack'[h][i].kind = "svc" =>
              /\ stack'[h][i].inst < nextInst
              /\ stack'[h][i].inst \in DOMAIN owner => owner[stack'[h][i].inst] = Exp(stack'[h][i], h)
      <3> SUFFICES ASSUME NEW h \in G, NEW i \in 1..Len(stack'[h]), stack'[h][i].kind = "svc"
                   PROVE  /\ stack'[h][i].inst < nextInst
                          /\ stack'[h][i].inst \in DOMAIN owner => owner[stack'[h][i].inst] = Exp(stack'[h][i], h)
        OBVIOUS
      <3>1. CASE i \in 1..Len(stack[h]) /\ ~(h = g /\ i = n) /\ stack'[h][i] = stack[h][i]
        BY <3>1, <2>2 DEF InstBound, OwnerInv
      <3>2. CASE h = g /\ i = n /\ stack'[h][i] = f2
        BY <3>2, <1>6
      <3>3. CASE h = g /\ i = n + 1 /\ stack'[h][i].phase = "lock" /\ stack'[h][i].inst = 0
        BY <3>3, <2>2, <1>2 DEF InstBound
      <3> QED BY <3>1, <3>2, <3>3, <1>4 DEF Shape
    <2>6. \A h \in G : BagKey(h)' = BagKey(h)
      BY <1>3, BagKeyStable
    <2>7. InstBound'
      BY <2>2, <2>4, <2>5, <2>1, <1>3 DEF InstBound
    <2>8. OwnerInv'
      <3>1. \A h \in G : \A i \in 1..Len(stack'[h]) :
               (stack'[h][i].kind = "svc" /\ stack'[h][i].inst \in DOMAIN owner') => owner'[stack'[h][i].inst] = ExpK(stack'[h][i], BagKey(h)')
        BY <2>5, <2>6, <1>3 DEF Exp
      <3>2. ContextIsolation'
        BY <2>2, <1>3 DEF OwnerInv, ContextIsolation
      <3> QED BY <3>1, <3>2, <2>2, <2>4, <2>1, <1>3 DEF OwnerInv, Exp
    <2> QED BY <2>7, <2>8 DEF CtxInv
  <1>9. CASE f.kind # "par" /\ ScopeOf[f.id] # "shared" /\ ScopeOf[f.id] = "contextual"
    <2> DEFINE key == BagKey(g)
    <2>1. /\ f.kind = "svc" /\ shared' = shared
          /\ bags' = [k \in (DOMAIN bags) \cup {key} |->
                        IF k = key THEN [x \in (DOMAIN BagOf(k)) \cup {f.id} |-> IF x = f.id THEN f.inst ELSE BagOf(k)[x]]
                        ELSE bags[k]]
      BY <1>9, <1>2 DEF Store, FrameT
    <2>2. InstBound /\ OwnerInv
      BY DEF CtxInv
    <2>3. f.inst < nextInst /\ (f.inst \in DOMAIN owner => owner[f.inst] = key)
      BY <2>1, <1>5, <1>9 DEF Exp, ExpK
    <2>4. \A x \in DOMAIN BagOf(key) : BagOf(key)[x] < nextInst /\ (BagOf(key)[x] \in DOMAIN owner => owner[BagOf(key)[x]] = key)
      BY <2>2 DEF BagOf, InstBound, OwnerInv
    <2>5. \A k \in DOMAIN bags' : \A x \in DOMAIN bags'[k] : bags'[k][x] < nextInst /\ (bags'[k][x] \in DOMAIN owner => owner[bags'[k][x]] = k)
      <3> SUFFICES ASSUME NEW k \in DOMAIN bags', NEW x \in DOMAIN bags'[k]
                   PROVE  bags'[k][x] < nextInst /\ (bags'[k][x] \in DOMAIN owner => owner[bags'[k][x]] = k)
        OBVIOUS
      <3>1. k \in (DOMAIN bags) \cup {key}
        BY <2>1
      <3>2. CASE k = key
        <4>1. bags'[k] = [y \in (DOMAIN BagOf(key)) \cup {f.id} |-> IF y = f.id THEN f.inst ELSE BagOf(key)[y]]
          BY <3>1, <3>2, <2>1
        <4>2. x \in (DOMAIN BagOf(key)) \cup {f.id} /\ bags'[k][x] = IF x = f.id THEN f.inst ELSE BagOf(key)[x]
          BY <4>1
        <4> QED BY <4>2, <2>3, <2>4, <3>2
      <3>3. CASE k # key
        <4>1. k \in DOMAIN bags /\ bags'[k] = bags[k]
          BY <3>1, <3>3, <2>1
        <4> QED BY <4>1, <2>2 DEF InstBound, OwnerInv
      <3> QED BY <3>2, <3>3
    <2>6. \A h \in G : \A i \in 1..Len(stack'[h]) : stack'[h][i].kind = "svc" =>
              /\ stack'[h][i].inst < nextInst
              /\ stack'[h][i].inst \in DOMAIN owner => owner[stack'[h][i].inst] = Exp(stack'[h][i], h)
      <3> SUFFICES ASSUME NEW h \in G, NEW i \in 1..Len(stack'[h]), stack'[h][i].kind = "svc"
                   PROVE  /\ stack'[h][i].inst < nextInst
                          /\ stack'[h][i].inst \in DOMAIN owner => owner[stack'[h][i].inst] = Exp(stack'[h][i], h)
        OBVIOUS
      <3>1. CASE i \in 1..Len(stack[h]) /\ ~(h = g /\ i = n) /\ stack'[h][i] = stack[h][i]
        BY <3>1, <2>2 DEF InstBound, OwnerInv
      <3>2. CASE h = g /\ i = n /\ stack'[h][i] = f2
        BY <3>2, <1>6
      <3>3. CASE h = g /\ i = n + 1 /\ stack'[h][i].phase = "lock" /\ stack'[h][i].inst = 0
        BY <3>3, <2>2, <1>2 DEF InstBound
      <3> QED BY <3>1, <3>2, <3>3, <1>4 DEF Shape
    <2>7. \A h \in G : BagKey(h)' = BagKey(h)
      BY <1>3, BagKeyStable
    <2>8. InstBound'
      BY <2>2, <2>5, <2>6, <2>1, <1>3 DEF InstBound
    <2>9. OwnerInv'
      <3>1. \A h \in G : \A i \in 1..Len(stack'[h]) :
               (stack'[h][i].kind = "svc" /\ stack'[h][i].inst \in DOMAIN owner') => owner'[stack'[h][i].inst] = ExpK(stack'[h][i], BagKey(h)')
        BY <2>6, <2>7, <1>3 DEF Exp
      <3>2. ContextIsolation'
        BY <2>2, <1>3 DEF OwnerInv, ContextIsolation
      <3> QED BY <3>1, <3>2, <2>2, <2>5, <2>1, <1>3 DEF OwnerInv, Exp
    <2> QED BY <2>8, <2>9 DEF CtxInv
  <1> QED BY <1>7, <1>8, <1>9

LEMMA ReturnCtx == ASSUME Inv, CtxInv, NEW g \in G, Return(g) PROVE CtxInv'
  <1>1. TypeOK /\ Busy(g) /\ Len(stack[g]) = 1
    BY DEF Inv, Return
  <1> DEFINE f == Top(g)
             rec == [g |-> g, i |-> pcs[g], kind |-> f.kind, id |-> f.id, inst |-> f.inst, bag |-> BagKey(g)]
  <1>2. f \in FrameT /\ f = stack[g][1]
    BY <1>1, BusyLen
  <1>3. /\ returned' = returned \cup {rec} /\ pcs' = [pcs EXCEPT ![g] = @ + 1] /\ stack' = Pop(g)
        /\ UNCHANGED <<shared, bags, nextInst, owner>>
    BY DEF Return
  <1>4. /\ \A h \in G : h # g => (stack'[h] = stack[h] /\ pcs'[h] = pcs[h])
        /\ Len(stack'[g]) = 0
    <2>1. pcs \in [G -> Nat \ {0}]
      BY <1>1 DEF TypeOK
    <2> QED BY <1>1, <1>3, <2>1, PopProps
  <1>5. InstBound /\ OwnerInv
    BY DEF CtxInv
  <1>6. f.kind = "svc" => (f.inst \in Nat /\ f.inst < nextInst /\ (f.inst \in DOMAIN owner => owner[f.inst] = Exp(f, g)))
    BY <1>1, <1>2, TopFacts DEF FrameT
  <1>7. \A h \in G : h # g => BagKey(h)' = BagKey(h)
    BY <1>4, BagKeyStable
  <1>8. \A h \in G : \A i \in 1..Len(stack'[h]) : h # g /\ i \in 1..Len(stack[h]) /\ stack'[h][i] = stack[h][i]
    BY <1>4
  <1>9. InstBound'
    <2>1. \A r \in returned' : r.kind = "svc" => (r.inst \in Nat /\ r.inst < nextInst')
      BY <1>3, <1>5, <1>6 DEF InstBound
    <2>2. \A h \in G : \A i \in 1..Len(stack'[h]) : stack'[h][i].kind = "svc" => stack'[h][i].inst < nextInst'
      BY <1>8, <1>3, <1>5 DEF InstBound
    <2> QED BY <2>1, <2>2, <1>3, <1>5 DEF InstBound
  <1>10. OwnerInv'
    <2>1. \A h \in G : \A i \in 1..Len(stack'[h]) :
             (stack'[h][i].kind = "svc" /\ stack'[h][i].inst \in DOMAIN owner') => owner'[stack'[h][i].inst] = ExpK(stack'[h][i], BagKey(h)')
      BY <1>8, <1>7, <1>3, <1>5 DEF OwnerInv, Exp
    <2>2. ContextIsolation'
      <3> SUFFICES ASSUME NEW r \in returned', r.kind = "svc", r.inst \in DOMAIN owner', owner'[r.inst] # ""
                   PROVE  owner'[r.inst] = r.bag
        BY DEF ContextIsolation
      <3>1. CASE r \in returned
        BY <3>1, <1>3, <1>5 DEF OwnerInv, ContextIsolation
      <3>2. CASE r = rec
        <4>1. r.kind = f.kind /\ r.inst = f.inst /\ r.bag = BagKey(g)
          BY <3>2
        <4>2. owner[f.inst] = Exp(f, g) /\ owner[f.inst] # ""
          BY <4>1, <1>3, <1>6
        <4> QED BY <4>1, <4>2, <1>3 DEF Exp, ExpK
      <3> QED BY <3>1, <3>2, <1>3
    <2> QED BY <2>1, <2>2, <1>3, <1>5 DEF OwnerInv, Exp
  <1> QED BY <1>9, <1>10 DEF CtxInv

THEOREM CtxInductive == Inv /\ CtxInv /\ [CNext]_cvars => CtxInv'
  <1> SUFFICES ASSUME Inv, CtxInv, [CNext]_cvars PROVE CtxInv'
    OBVIOUS
  <1>1. CASE UNCHANGED cvars
    BY <1>1 DEF CtxInv, InstBound, OwnerInv, ContextIsolation, Exp, ExpK, BagKey, CurOp, cvars
  <1>2. ASSUME NEW g \in G, Begin(g) \/ Lock(g) \/ Check(g) \/ Dep(g) \/ Construct(g) \/ Store(g) \/ Unlock(g) \/ Return(g) PROVE CtxInv'
    BY <1>2, BeginCtx, LockCtx, CheckCtx, DepCtx, ConstructCtx, StoreCtx, UnlockCtx, ReturnCtx
  <1> QED BY <1>1, <1>2 DEF CNext

-----------------------------------------------------------------------------
(* All operations on a shared service see the one instance: once a frame of s is past its   *)
(* critical section (unlock, return), and in every result, the instance is what the shared  *)
(* cache holds, and the cache is filled.                                                    *)
Past(fr, s) == IsSvcFrame(fr, s) /\ fr.phase \in {"unlock", "return"}
AgreeFor(s) ==
  /\ \A g \in G : \A i \in 1..Len(stack[g]) : Past(stack[g][i], s) => (stack[g][i].inst = shared[s] /\ shared[s] # 0)
  /\ \A r \in returned : (r.kind = "svc" /\ r.id = s) => (r.inst = shared[s] /\ shared[s] # 0)
RetTyped == \A r \in returned : r.kind = "svc" => r.id \in Svc
AgreeInv == RetTyped /\ \A s \in Svc : ScopeOf[s] = "shared" => AgreeFor(s)

THEOREM AgreeImplies == AgreeInv => SharedAgreed
  <1> SUFFICES ASSUME AgreeInv, NEW r1 \in returned, NEW r2 \in returned,
                      r1.kind = "svc", r2.kind = "svc", r1.id = r2.id, ScopeOf[r1.id] = "shared"
               PROVE  r1.inst = r2.inst
    BY DEF SharedAgreed
  <1>1. r1.id \in Svc /\ AgreeFor(r1.id)
    BY DEF AgreeInv, RetTyped
  <1> QED BY <1>1 DEF AgreeFor

LEMMA InitAgree == CInit => AgreeInv
  <1> SUFFICES ASSUME CInit PROVE AgreeInv
    OBVIOUS
  <1>1. returned = {} /\ \A g \in G : Len(stack[g]) = 0
    BY DEF CInit
  <1> QED BY <1>1 DEF AgreeInv, AgreeFor, RetTyped

(* a step that leaves shared[s] and the results alone and whose new top frame (if any) is not past its critical section, or is so *)
(* with the cached instance                                                                                                       *)
LEMMA AgreeStep ==
  ASSUME NEW s \in Svc, AgreeFor(s), NEW g \in G, NEW f2, Shape(g, f2), shared'[s] = shared[s], returned' = returned,
         Len(stack[g]) \in 1..Len(stack'[g]) => (Past(f2, s) => (f2.inst = shared[s] /\ shared[s] # 0))
  PROVE  AgreeFor(s)'
  <1>1. \A h \in G : \A i \in 1..Len(stack'[h]) : Past(stack'[h][i], s) => (stack'[h][i].inst = shared[s] /\ shared[s] # 0)
    <2> SUFFICES ASSUME NEW h \in G, NEW i \in 1..Len(stack'[h]), Past(stack'[h][i], s)
                 PROVE  stack'[h][i].inst = shared[s] /\ shared[s] # 0
      OBVIOUS
    <2>1. CASE i \in 1..Len(stack[h]) /\ ~(h = g /\ i = Len(stack[g])) /\ stack'[h][i] = stack[h][i]
      BY <2>1 DEF AgreeFor
    <2>2. CASE h = g /\ i = Len(stack[g]) /\ stack'[h][i] = f2
      BY <2>2
    <2>3. CASE h = g /\ i = Len(stack[g]) + 1 /\ stack'[h][i].phase = "lock" /\ stack'[h][i].inst = 0
      BY <2>3 DEF Past
    <2> QED BY <2>1, <2>2, <2>3 DEF Shape
  <1> QED BY <1>1 DEF AgreeFor

(* the shape of each action's stack change, with what the new top frame is (kind, id and instance of the old top kept unless said) *)
LEMMA ActionShape ==
  ASSUME Inv, NEW g \in G,
         Begin(g) \/ Lock(g) \/ Dep(g) \/ Construct(g) \/ Unlock(g)
  PROVE  \E f2 : /\ Shape(g, f2)
                 /\ Len(stack[g]) \in 1..Len(stack'[g]) =>
                       (Busy(g) /\ f2.kind = Top(g).kind /\ f2.id = Top(g).id
                        /\ (Lock(g) => f2.phase = "check") /\ (Dep(g) => f2.phase \in {"deps", "build"})
                        /\ (Construct(g) => f2.phase = "store") /\ (Unlock(g) => (f2.phase = "return" /\ f2.inst = Top(g).inst)))
  <1>1. TypeOK
    BY DEF Inv
  <1>2. CASE Begin(g)
    <2> DEFINE o == CurOp(g)
               k == IF o.op = "GetParam" THEN "par" ELSE "svc"
               fr == Frame(k, o.id)
    <2>1. stack' = Push(g, fr) /\ ~Busy(g)
      BY <1>2 DEF Begin
    <2>2. pcs[g] \in 1..Len(Ops[g])
      BY <1>1, <1>2 DEF Begin, TypeOK
    <2>3. fr \in FrameT /\ fr.phase = "lock" /\ fr.inst = 0
      <3>1. o.id \in Keys /\ (k = "svc" => o.id \in Svc) /\ (k = "par" => o.id \in Par)
        BY <2>2, ConstAssump DEF CurOp
      <3> QED BY <3>1, FrameTyped DEF Frame
    <2>4. stack[g] = <<>> /\ Len(stack[g]) = 0
      BY <2>1 DEF Busy
    <2>5. /\ \A h \in G : h # g => stack'[h] = stack[h]
          /\ Len(stack'[g]) = Len(stack[g]) + 1
          /\ stack'[g][Len(stack[g]) + 1] = fr
      BY <1>1, <2>1, <2>3, PushProps
    <2>6. Shape(g, fr) /\ Len(stack[g]) \notin 1..Len(stack'[g])
      BY <2>4, <2>5, <2>3 DEF Shape
    <2> QED BY <2>6
  <1>3. CASE Lock(g)
    <2> DEFINE f2 == [Top(g) EXCEPT !.phase = "check"]
    <2>1. Busy(g) /\ Top(g) \in FrameT
      BY <1>1, <1>3, BusyLen DEF Lock
    <2>2. f2 \in FrameT /\ stack' = SetTop(g, f2) /\ f2.kind = Top(g).kind /\ f2.id = Top(g).id /\ f2.phase = "check"
      BY <1>3, <2>1 DEF Lock, FrameT, Phases
    <2>3. Shape(g, f2)
      BY <1>1, <2>1, <2>2, SetTopShape
    <2>4. ~Begin(g) /\ ~Dep(g) /\ ~Construct(g) /\ ~Unlock(g)
      BY <1>3 DEF Lock, Begin, Dep, Construct, Unlock
    <2> QED BY <2>1, <2>2, <2>3, <2>4
  <1>4. CASE Construct(g)
    <2> DEFINE f == Top(g)
               f2 == IF f.kind = "par" THEN [f EXCEPT !.phase = "store", !.inst = 1] ELSE [f EXCEPT !.phase = "store", !.inst = nextInst]
    <2>1. Busy(g) /\ f \in FrameT /\ nextInst \in Nat \ {0}
      BY <1>1, <1>4, BusyLen DEF Construct, TypeOK
    <2>2. f2 \in FrameT /\ stack' = SetTop(g, f2) /\ f2.kind = f.kind /\ f2.id = f.id /\ f2.phase = "store"
      BY <1>4, <2>1 DEF Construct, FrameT, Phases
    <2>3. Shape(g, f2)
      BY <1>1, <2>1, <2>2, SetTopShape
    <2>4. ~Begin(g) /\ ~Dep(g) /\ ~Lock(g) /\ ~Unlock(g)
      BY <1>4 DEF Lock, Begin, Dep, Construct, Unlock
    <2> QED BY <2>1, <2>2, <2>3, <2>4
  <1>5. CASE Unlock(g)
    <2> DEFINE f == Top(g)
               n == Len(stack[g])
               f2 == [f EXCEPT !.phase = "return"]
    <2>1. Busy(g) /\ f \in FrameT /\ n \in Nat \ {0}
      BY <1>1, <1>5, BusyLen DEF Unlock
    <2>2. f2 \in FrameT /\ f2.kind = f.kind /\ f2.id = f.id /\ f2.phase = "return" /\ f2.inst = f.inst
      BY <2>1 DEF FrameT, Phases
    <2>3. Shape(g, f2)
      <3>1. CASE n = 1
        <4>1. stack' = SetTop(g, f2)
          BY <1>5, <3>1 DEF Unlock
        <4> QED BY <1>1, <2>1, <2>2, <4>1, SetTopShape
      <3>2. CASE n # 1
        <4>1. stack' = Pop(g)
          BY <1>5, <3>2 DEF Unlock
        <4> QED BY <1>1, <2>1, <4>1, PopShape
      <3> QED BY <3>1, <3>2
    <2>4. ~Begin(g) /\ ~Dep(g) /\ ~Lock(g) /\ ~Construct(g)
      BY <1>5 DEF Lock, Begin, Dep, Construct, Unlock
    <2> QED BY <2>1, <2>2, <2>3, <2>4
  <1>6. CASE Dep(g)
    <2> DEFINE f == Top(g)
               n == Len(stack[g])
               ds == DepsOf[f.id]
    <2>1. Busy(g) /\ f \in FrameT /\ n \in Nat \ {0} /\ f = stack[g][n] /\ f.phase = "deps"
      BY <1>1, <1>6, BusyLen DEF Dep
    <2>2. ~Begin(g) /\ ~Construct(g) /\ ~Lock(g) /\ ~Unlock(g)
      BY <1>6 DEF Lock, Begin, Dep, Construct, Unlock
    <2>3. \E f2 \in FrameT : Shape(g, f2) /\ f2.kind = f.kind /\ f2.id = f.id /\ f2.phase \in {"deps", "build"}
      <3>1. CASE f.dep > Len(ds)
        <4> DEFINE f2 == [f EXCEPT !.phase = "build"]
        <4>1. f2 \in FrameT /\ f2.kind = f.kind /\ f2.id = f.id /\ f2.phase \in {"deps", "build"}
          BY <2>1 DEF FrameT, Phases
        <4>2. stack' = SetTop(g, f2)
          BY <1>6, <3>1 DEF Dep
        <4> QED BY <1>1, <2>1, <4>1, <4>2, SetTopShape
      <3>2. CASE ~(f.dep > Len(ds))
        <4> DEFINE f2 == [f EXCEPT !.dep = f.dep + 1]
                   d == ds[f.dep]
                   fr == Frame(d[1], d[2])
                   mid == [stack[g] EXCEPT ![n] = f2]
        <4>1. f.id \in Keys /\ f.dep \in Nat \ {0} /\ ds \in Seq({"svc", "par"} \X Keys)
          BY <2>1, ConstAssump DEF FrameT
        <4>2. f.dep \in 1..Len(ds)
          BY <3>2, <4>1, LenProperties
        <4>3. d \in {"svc", "par"} \X Keys /\ (d[1] = "svc" => d[2] \in Svc) /\ (d[1] = "par" => d[2] \in Par)
          BY <4>1, <4>2, ConstAssump, ElementOfSeq
        <4>4. fr \in FrameT /\ fr.phase = "lock" /\ fr.inst = 0
          BY <4>3, FrameTyped DEF Frame
        <4>5. f2 \in FrameT /\ f2.kind = f.kind /\ f2.id = f.id /\ f2.phase \in {"deps", "build"}
          BY <2>1 DEF FrameT
        <4>6. stack' = [stack EXCEPT ![g] = Append(mid, fr)]
          BY <1>6, <3>2 DEF Dep
        <4>7. stack[g] \in Seq(FrameT) /\ stack \in [G -> Seq(FrameT)]
          BY <1>1 DEF TypeOK
        <4>8. mid \in Seq(FrameT) /\ Len(mid) = n /\ \A i \in 1..n : mid[i] = IF i = n THEN f2 ELSE stack[g][i]
          BY <4>7, <4>5, <2>1, ExceptSeq
        <4>9. /\ Append(mid, fr) \in Seq(FrameT) /\ Len(Append(mid, fr)) = n + 1
              /\ \A i \in 1..n : Append(mid, fr)[i] = mid[i]
              /\ Append(mid, fr)[n + 1] = fr
          BY <4>8, <4>4, AppendProperties
        <4>10. /\ \A h \in G : h # g => stack'[h] = stack[h]
               /\ Len(stack'[g]) = n + 1
               /\ \A i \in 1..n : i # n => stack'[g][i] = stack[g][i]
               /\ stack'[g][n] = f2 /\ stack'[g][n + 1] = fr
          BY <4>6, <4>7, <4>8, <4>9, <2>1
        <4>11. Shape(g, f2)
          BY <4>10, <4>4, <2>1 DEF Shape
        <4> QED BY <4>5, <4>11
      <3> QED BY <3>1, <3>2
    <2> QED BY <2>1, <2>2, <2>3
  <1> QED BY <1>2, <1>3, <1>4, <1>5, <1>6

(* Begin, Lock, Dep, Construct, Unlock: the caches and results stay, the new top frame is not past its critical section, or was so before *)
LEMMA PlainAgree ==
  ASSUME Inv, AgreeInv, NEW g \in G, Begin(g) \/ Lock(g) \/ Dep(g) \/ Construct(g) \/ Unlock(g)
  PROVE  AgreeInv'
  <1>1. shared' = shared /\ returned' = returned
    BY DEF Begin, Lock, Dep, Construct, Unlock
  <1>2. PICK f2 : /\ Shape(g, f2)
                  /\ Len(stack[g]) \in 1..Len(stack'[g]) =>
                       (Busy(g) /\ f2.kind = Top(g).kind /\ f2.id = Top(g).id
                        /\ (Lock(g) => f2.phase = "check") /\ (Dep(g) => f2.phase \in {"deps", "build"})
                        /\ (Construct(g) => f2.phase = "store") /\ (Unlock(g) => (f2.phase = "return" /\ f2.inst = Top(g).inst)))
    BY ActionShape
  <1>3. RetTyped'
    BY <1>1 DEF AgreeInv, RetTyped
  <1> SUFFICES ASSUME NEW s \in Svc, ScopeOf[s] = "shared" PROVE AgreeFor(s)'
    BY <1>3 DEF AgreeInv
  <1>4. AgreeFor(s)
    BY DEF AgreeInv
  <1>5. Len(stack[g]) \in 1..Len(stack'[g]) => (Past(f2, s) => (f2.inst = shared[s] /\ shared[s] # 0))
    <2> SUFFICES ASSUME Len(stack[g]) \in 1..Len(stack'[g]), Past(f2, s) PROVE f2.inst = shared[s] /\ shared[s] # 0
      OBVIOUS
    <2>1. Busy(g) /\ f2.kind = Top(g).kind /\ f2.id = Top(g).id /\ f2.phase \in {"unlock", "return"}
      BY <1>2 DEF Past
    <2>2. Unlock(g) /\ f2.inst = Top(g).inst /\ Top(g).phase = "unlock"
      BY <2>1, <1>2 DEF Unlock, Begin
    <2>3. Len(stack[g]) \in 1..Len(stack[g]) /\ Top(g) = stack[g][Len(stack[g])]
      BY <2>1, BusyLen DEF Inv
    <2>4. Past(Top(g), s)
      BY <2>1, <2>2 DEF Past, IsSvcFrame
    <2> QED BY <2>2, <2>3, <2>4, <1>4 DEF AgreeFor
  <1> QED BY <1>1, <1>2, <1>4, <1>5, AgreeStep

LEMMA CheckAgree == ASSUME Inv, AgreeInv, NEW g \in G, Check(g) PROVE AgreeInv'
  <1>1. TypeOK /\ Busy(g)
    BY DEF Inv, Check
  <1> DEFINE f == Top(g)
             f2 == IF Cached(g) # 0 THEN [f EXCEPT !.phase = "unlock", !.inst = Cached(g)] ELSE [f EXCEPT !.phase = "deps"]
  <1>2. f \in FrameT /\ Cached(g) \in Nat
    BY <1>1, BusyLen, CachedNat
  <1>3. f2 \in FrameT /\ stack' = SetTop(g, f2) /\ f2.kind = f.kind /\ f2.id = f.id /\ shared' = shared /\ returned' = returned
    BY <1>2 DEF Check, FrameT, Phases
  <1>4. Shape(g, f2)
    BY <1>1, <1>3, SetTopShape
  <1>5. RetTyped'
    BY <1>3 DEF AgreeInv, RetTyped
  <1> SUFFICES ASSUME NEW s \in Svc, ScopeOf[s] = "shared" PROVE AgreeFor(s)'
    BY <1>5 DEF AgreeInv
  <1>6. AgreeFor(s)
    BY DEF AgreeInv
  <1>7. Past(f2, s) => (f2.inst = shared[s] /\ shared[s] # 0)
    <2> SUFFICES ASSUME Past(f2, s) PROVE f2.inst = shared[s] /\ shared[s] # 0
      OBVIOUS
    <2>1. f.kind = "svc" /\ f.id = s /\ f2.phase \in {"unlock", "return"}
      BY <1>3 DEF Past, IsSvcFrame
    <2>2. Cached(g) # 0 /\ f2.inst = Cached(g)
      BY <2>1, <1>2 DEF FrameT
    <2>3. Cached(g) = shared[s]
      BY <2>1 DEF Cached
    <2> QED BY <2>2, <2>3
  <1> QED BY <1>3, <1>4, <1>6, <1>7, AgreeStep

LEMMA StoreAgree == ASSUME Inv, OnceInv, AgreeInv, NEW g \in G, Store(g) PROVE AgreeInv'
  <1>1. TypeOK /\ Busy(g) /\ Top(g).phase = "store"
    BY DEF Inv, Store
  <1> DEFINE f == Top(g)
             n == Len(stack[g])
             f2 == [f EXCEPT !.phase = "unlock"]
  <1>2. f \in FrameT /\ n \in Nat \ {0} /\ f = stack[g][n] /\ shared \in [Svc -> Nat]
    BY <1>1, BusyLen DEF TypeOK
  <1>3. f2 \in FrameT /\ stack' = SetTop(g, f2) /\ f2.kind = f.kind /\ f2.id = f.id /\ f2.inst = f.inst /\ f2.phase = "unlock"
        /\ returned' = returned
    BY <1>2 DEF Store, FrameT, Phases
  <1>4. Shape(g, f2)
    BY <1>1, <1>3, SetTopShape
  <1>5. RetTyped'
    BY <1>3 DEF AgreeInv, RetTyped
  <1> SUFFICES ASSUME NEW s \in Svc, ScopeOf[s] = "shared" PROVE AgreeFor(s)'
    BY <1>5 DEF AgreeInv
  <1>6. AgreeFor(s) /\ OnceFor(s)
    BY DEF AgreeInv, OnceInv
  <1>7. CASE ~IsSvcFrame(f, s)
    <2>1. shared'[s] = shared[s]
      <3>1. CASE f.kind = "par"
        BY <3>1 DEF Store
      <3>2. CASE f.kind # "par" /\ ScopeOf[f.id] = "shared"
        <4>1. f.id \in Svc /\ f.id # s /\ shared' = [shared EXCEPT ![f.id] = f.inst]
          BY <3>2, <1>2, <1>7 DEF Store, FrameT, IsSvcFrame
        <4> QED BY <4>1, <1>2
      <3>3. CASE f.kind # "par" /\ ScopeOf[f.id] # "shared"
        BY <3>3 DEF Store
      <3> QED BY <3>1, <3>2, <3>3
    <2>2. ~Past(f2, s)
      BY <1>7, <1>3 DEF Past, IsSvcFrame
    <2> QED BY <1>3, <1>4, <1>6, <2>1, <2>2, AgreeStep
  <1>8. CASE IsSvcFrame(f, s)
    <2>1. Cls(f, s) = "store" /\ shared[s] = 0 /\ f.inst # 0
      BY <1>8, <1>1, <1>2, <1>6 DEF Cls, OnceFor
    <2>2. shared'[s] = f.inst
      <3>1. f.kind # "par" /\ f.id = s /\ ScopeOf[f.id] = "shared"
        BY <1>8 DEF IsSvcFrame
      <3>2. shared' = [shared EXCEPT ![f.id] = f.inst]
        BY <3>1 DEF Store
      <3> QED BY <3>1, <3>2, <1>2
    (* nothing of s was past its critical section and no result of s exists: the cache was empty *)
    <2>3. \A h \in G : \A i \in 1..Len(stack[h]) : ~Past(stack[h][i], s)
      BY <2>1, <1>6 DEF AgreeFor
    <2>4. \A r \in returned : ~(r.kind = "svc" /\ r.id = s)
      BY <2>1, <1>6 DEF AgreeFor
    <2>5. \A h \in G : \A i \in 1..Len(stack'[h]) : Past(stack'[h][i], s) => (stack'[h][i].inst = shared'[s] /\ shared'[s] # 0)
      <3> SUFFICES ASSUME NEW h \in G, NEW i \in 1..Len(stack'[h]), Past(stack'[h][i], s)
                   PROVE  stack'[h][i].inst = shared'[s] /\ shared'[s] # 0
        OBVIOUS
      <3>1. CASE i \in 1..Len(stack[h]) /\ ~(h = g /\ i = n) /\ stack'[h][i] = stack[h][i]
        BY <3>1, <2>3
      <3>2. CASE h = g /\ i = n /\ stack'[h][i] = f2
        BY <3>2, <2>1, <2>2, <1>3
      <3>3. CASE h = g /\ i = n + 1 /\ stack'[h][i].phase = "lock" /\ stack'[h][i].inst = 0
        BY <3>3 DEF Past
      <3> QED BY <3>1, <3>2, <3>3, <1>4 DEF Shape
    <2> QED BY <2>4, <2>5, <1>3 DEF AgreeFor
  <1> QED BY <1>7, <1>8

LEMMA ReturnAgree == ASSUME Inv, AgreeInv, NEW g \in G, Return(g) PROVE AgreeInv'
  <1>1. TypeOK /\ Busy(g) /\ Len(stack[g]) = 1 /\ Top(g).phase = "return"
    BY DEF Inv, Return
  <1> DEFINE f == Top(g)
             rec == [g |-> g, i |-> pcs[g], kind |-> f.kind, id |-> f.id, inst |-> f.inst, bag |-> BagKey(g)]
  <1>2. f \in FrameT /\ f = stack[g][1]
    BY <1>1, BusyLen
  <1>3. returned' = returned \cup {rec} /\ stack' = Pop(g) /\ shared' = shared
    BY DEF Return
  <1>4. /\ \A h \in G : h # g => stack'[h] = stack[h]
        /\ Len(stack'[g]) = 0
    BY <1>1, <1>3, PopProps
  <1>5. RetTyped'
    <2>1. rec.kind = "svc" => rec.id \in Svc
      BY <1>2 DEF FrameT
    <2> QED BY <2>1, <1>3 DEF AgreeInv, RetTyped
  <1> SUFFICES ASSUME NEW s \in Svc, ScopeOf[s] = "shared" PROVE AgreeFor(s)'
    BY <1>5 DEF AgreeInv
  <1>6. AgreeFor(s)
    BY DEF AgreeInv
  <1>7. \A h \in G : \A i \in 1..Len(stack'[h]) : h # g /\ i \in 1..Len(stack[h]) /\ stack'[h][i] = stack[h][i]
    BY <1>4
  <1>8. (rec.kind = "svc" /\ rec.id = s) => (rec.inst = shared[s] /\ shared[s] # 0)
    <2> SUFFICES ASSUME rec.kind = "svc", rec.id = s PROVE rec.inst = shared[s] /\ shared[s] # 0
      OBVIOUS
    <2>1. Past(f, s) /\ 1 \in 1..Len(stack[g])
      BY <1>1 DEF Past, IsSvcFrame
    <2> QED BY <2>1, <1>2, <1>6 DEF AgreeFor
  <1> QED BY <1>3, <1>6, <1>7, <1>8 DEF AgreeFor

THEOREM AgreeInductive == Inv /\ OnceInv /\ AgreeInv /\ [CNext]_cvars => AgreeInv'
  <1> SUFFICES ASSUME Inv, OnceInv, AgreeInv, [CNext]_cvars PROVE AgreeInv'
    OBVIOUS
  <1>1. CASE UNCHANGED cvars
    BY <1>1 DEF AgreeInv, AgreeFor, RetTyped, Past, IsSvcFrame, cvars
  <1>2. ASSUME NEW g \in G, Begin(g) \/ Lock(g) \/ Check(g) \/ Dep(g) \/ Construct(g) \/ Store(g) \/ Unlock(g) \/ Return(g) PROVE AgreeInv'
    BY <1>2, PlainAgree, CheckAgree, StoreAgree, ReturnAgree
  <1> QED BY <1>1, <1>2 DEF CNext

THEOREM ConstructedOnceAlways == (CInit /\ [][CNext]_cvars) => []ConstructedOnce
  <1>1. CInit => Inv /\ OnceInv
    BY InitInv, InitOnce
  <1>2. (Inv /\ OnceInv) /\ [CNext]_cvars => (Inv /\ OnceInv)'
    BY InvInductive, OnceInductive
  <1>3. (Inv /\ OnceInv) => ConstructedOnce
    BY OnceImplies
  <1> QED BY <1>1, <1>2, <1>3, PTL
THEOREM EvaluatedOnceAlways == (CInit /\ [][CNext]_cvars) => []EvaluatedOnce
  <1>1. CInit => Inv /\ EvalInv
    BY InitInv, InitEval
  <1>2. (Inv /\ EvalInv) /\ [CNext]_cvars => (Inv /\ EvalInv)'
    BY InvInductive, EvalInductive
  <1>3. (Inv /\ EvalInv) => EvaluatedOnce
    BY EvalImplies
  <1> QED BY <1>1, <1>2, <1>3, PTL
THEOREM ContextIsolationAlways == (CInit /\ [][CNext]_cvars) => []ContextIsolation
  <1>1. CInit => Inv /\ CtxInv
    BY InitInv, InitCtx
  <1>2. (Inv /\ CtxInv) /\ [CNext]_cvars => (Inv /\ CtxInv)'
    BY InvInductive, CtxInductive
  <1>3. (Inv /\ CtxInv) => ContextIsolation
    BY CtxImplies
  <1> QED BY <1>1, <1>2, <1>3, PTL
THEOREM SharedAgreedAlways == (CInit /\ [][CNext]_cvars) => []SharedAgreed
  <1>1. CInit => Inv /\ OnceInv /\ AgreeInv
    BY InitInv, InitOnce, InitAgree
  <1>2. (Inv /\ OnceInv /\ AgreeInv) /\ [CNext]_cvars => (Inv /\ OnceInv /\ AgreeInv)'
    BY InvInductive, OnceInductive, AgreeInductive
  <1>3. (Inv /\ OnceInv /\ AgreeInv) => SharedAgreed
    BY AgreeImplies
  <1> QED BY <1>1, <1>2, <1>3, PTL
=============================================================================
