----------------------------- MODULE MC_Grammar -----------------------------
EXTENDS Grammar, Json
CONSTANTS Position, Alphabet, MaxLen
VARIABLE str
Init == str = <<>>
Next == Len(str) < MaxLen /\ \E c \in Alphabet : str' = Append(str, c)
Emit == PrintT(<<"ST", ToJson([s |-> str, ok |-> InLanguage(Position, str),
                               cls |-> IF Position = "arg" THEN ArgClass(str) ELSE ""])>>)
=============================================================================
