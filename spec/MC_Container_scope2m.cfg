CONSTANT Family = "scope2m"
CONSTANT MaxHist = 2
INIT Init
NEXT Next
INVARIANT Emit
INVARIANT SharedOnce
INVARIANT ContextIsolation
INVARIANT SharedNeverHoldsContextual
