CONSTANT MaxErr = 100000
INIT TraceInit
NEXT TraceNext
CONSTRAINT HW
INVARIANT ExitIff
INVARIANT Untouched
INVARIANT CountMatch
INVARIANT OneFailLast
INVARIANT WriteLast
POSTCONDITION Report
