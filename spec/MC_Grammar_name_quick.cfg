CONSTANTS
 Position = "name"
 Alphabet = {"L", "D", "US", "PT", "HY", "SP", "O"}
 MaxLen = 4
INIT Init
NEXT Next
INVARIANT Emit
