CONSTANT Family = "K"
INIT Init
NEXT Next
INVARIANT Emit
INVARIANT ScopeRuleSound
INVARIANT FlagsOnlyNarrow
INVARIANT AcceptedMeansClosed
