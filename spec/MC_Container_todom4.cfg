CONSTANT Family = "todom"
CONSTANT MaxHist = 4
INIT Init
NEXT Next
INVARIANT Emit
INVARIANT SharedOnce
INVARIANT ContextIsolation
INVARIANT SharedNeverHoldsContextual
INVARIANT TodoFails
INVARIANT LazyParams
