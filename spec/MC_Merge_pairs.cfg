CONSTANT Family = "pairs"
INIT Init
NEXT Next
INVARIANT Emit
INVARIANT Associative
INVARIANT Identity
INVARIANT SplitBack
