----------------------------- MODULE Trace_Conc -----------------------------
(* Validation of recorded concurrent runs of a generated container (C20).  Events carry    *)
(* one process-wide sequence number taken inside the fixture constructor / parameter       *)
(* function (they run under the runtime's per-entry lock) and at operation return:         *)
(*   cfg   : which constructors belong to shared / contextual / non_shared services, which  *)
(*           functions back parameters (one run = one container)                           *)
(*   ctor  : a fixture constructor ran (made, serial)                                      *)
(*   fn    : a parameter function ran                                                      *)
(*   ret   : an operation returned; insts = the <<made, serial>> pairs reachable from its  *)
(*           result; ctx = its context (0: a plain Get, which has a bag of its own);        *)
(*           root = the <<made, serial>> of the result itself (<<"", 0>> if not an object)  *)
(* The invariants are those ContainerConc.tla establishes for the design.                  *)
EXTENDS Naturals, Sequences, FiniteSets, TLC, Json

VARIABLES l, sharedMade, ctxMade, nsMade, paramFns, ctorCount, fnCount, sharedInst, instCtx, nsRoots
Trace == ndJsonDeserialize("trace.ndjson")
ToSetS(s) == {s[i] : i \in 1..Len(s)}
Bump(f, k) == [x \in (DOMAIN f) \cup {k} |-> IF x = k THEN (IF k \in DOMAIN f THEN f[k] ELSE 0) + 1 ELSE f[x]]
Lookup(f, k, dflt) == IF k \in DOMAIN f THEN f[k] ELSE dflt
Put(f, k, v) == [x \in (DOMAIN f) \cup {k} |-> IF x = k THEN v ELSE f[x]]

TInit == /\ l = 1 /\ sharedMade = {} /\ ctxMade = {} /\ nsMade = {} /\ nsRoots = {} /\ paramFns = {} /\ ctorCount = <<>> /\ fnCount = <<>>
         /\ sharedInst = <<>> /\ instCtx = <<>> /\ TLCSet(1, 0)

Cfg(e) == /\ sharedMade' = ToSetS(e.shared) /\ ctxMade' = ToSetS(e.contextual) /\ nsMade' = ToSetS(e.ns) /\ nsRoots' = {} /\ paramFns' = ToSetS(e.fns)
          /\ ctorCount' = <<>> /\ fnCount' = <<>> /\ sharedInst' = <<>> /\ instCtx' = <<>>
Ctor(e) == ctorCount' = Bump(ctorCount, e.made) /\ UNCHANGED <<sharedMade, ctxMade, nsMade, nsRoots, paramFns, fnCount, sharedInst, instCtx>>
Fn(e)   == fnCount' = Bump(fnCount, e.name) /\ UNCHANGED <<sharedMade, ctxMade, nsMade, nsRoots, paramFns, ctorCount, sharedInst, instCtx>>

(* a returned result: shared instances must be THE instance, contextual instances must     *)
(* belong to this operation's context (or, for a plain Get, to no other operation); an     *)
(* operation that asks for a non_shared service gets an instance no operation got before   *)
Ret(e) ==
  LET pairs == ToSetS(e.insts)
      key == IF e.ctx = 0 THEN "op" \o ToString(e.seq) ELSE "ctx" \o ToString(e.ctx) IN
  /\ \A p \in pairs : p[1] \in sharedMade => Lookup(sharedInst, p[1], p[2]) = p[2]
  /\ \A p \in pairs : p[1] \in ctxMade => Lookup(instCtx, ToString(p[2]), key) = key
  /\ sharedInst' = [m \in (DOMAIN sharedInst) \cup {p[1] : p \in {q \in pairs : q[1] \in sharedMade}} |->
                       Lookup(sharedInst, m, (CHOOSE p \in pairs : p[1] = m)[2])]
  /\ instCtx' = [s \in (DOMAIN instCtx) \cup {ToString(p[2]) : p \in {q \in pairs : q[1] \in ctxMade}} |->
                       Lookup(instCtx, s, key)]
  /\ (e.root[1] \in nsMade => e.root[2] \notin nsRoots)
  /\ nsRoots' = IF e.root[1] \in nsMade THEN nsRoots \cup {e.root[2]} ELSE nsRoots
  /\ UNCHANGED <<sharedMade, ctxMade, nsMade, paramFns, ctorCount, fnCount>>

TNext == /\ l <= Len(Trace)
         /\ LET e == Trace[l] IN
              \/ e.ev = "cfg" /\ Cfg(e)
              \/ e.ev = "ctor" /\ Ctor(e)
              \/ e.ev = "fn" /\ Fn(e)
              \/ e.ev = "ret" /\ Ret(e)
         /\ l' = l + 1

ConstructedOnce == \A m \in DOMAIN ctorCount : m \in sharedMade => ctorCount[m] <= 1
EvaluatedOnce   == \A f \in DOMAIN fnCount : f \in paramFns => fnCount[f] <= 1
HW == IF l > TLCGet(1) THEN TLCSet(1, l) ELSE TRUE
Report == PrintT(<<"HW", TLCGet(1), Len(Trace)>>)
=============================================================================
