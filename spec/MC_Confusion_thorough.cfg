CONSTANTS
 NPos = 47
 Kinds = {"alias", "at", "bigint", "bool", "emptymap", "emptyseq", "emptystr", "float", "inf", "int", "map", "mergekey", "multiline", "negint", "nested", "null", "pct", "seq", "str", "tagbinary", "taggedcustom", "tagset", "tagstr", "timestamp"}
 PairKinds = {"null", "seq", "map", "str", "int", "alias"}
INIT Init
NEXT Next
INVARIANT Emit
