CONSTANT Family = "C"
INIT Init
NEXT Next
INVARIANT Emit
INVARIANT ScopeRuleSound
INVARIANT FlagsOnlyNarrow
INVARIANT AcceptedMeansClosed
