CONSTANTS
 Alphabet = {"PCT", "L", "D", "US", "DOT", "LP", "RP", "QT", "SP", "O"}
 MaxLen = 5
 Wrap = "none"
 MinPct = 0
INIT Init
NEXT Next
INVARIANT Emit
INVARIANT EmitEnv
INVARIANT InvDoubling
INVARIANT InvOdd
INVARIANT InvTiling
