---------------------------- MODULE MC_Pipeline ----------------------------
(* Exhaustive exploration of Pipeline over families of scenarios; terminated states are  *)
(* printed with the outcome the specification demands and replayed on the real tool.     *)
EXTENDS Pipeline, Json

CONSTANT Family

Flags(q, st, ip, is) == [quiet |-> q, stub |-> st, ignoreP |-> ip, ignoreS |-> is]
AllFlagSets == {Flags(q, st, ip, is) : q \in BOOLEAN, st \in BOOLEAN, ip \in BOOLEAN, is \in BOOLEAN}
FewFlagSets == {Flags(FALSE, FALSE, FALSE, FALSE), Flags(TRUE, FALSE, FALSE, FALSE), Flags(FALSE, TRUE, FALSE, FALSE),
                Flags(FALSE, FALSE, TRUE, TRUE), Flags(TRUE, TRUE, TRUE, FALSE), Flags(FALSE, FALSE, FALSE, TRUE)}

OnePat == {<<o>> : o \in PatOutcomes \ {"same"}}
TwoPat == {<<a, b>> : a \in PatOutcomes \ {"same"}, b \in PatOutcomes} \ 
          {<<a, "same">> : a \in PatOutcomes \ {"good1", "good2"}}
Pats == OnePat \cup TwoPat

Defects(k) == {d \in SUBSET DefectClasses : Cardinality(d) <= k}

Scenario(p, d, f, o) == [pats |-> p, defects |-> d, quiet |-> f.quiet, stub |-> f.stub,
                         ignoreP |-> f.ignoreP, ignoreS |-> f.ignoreS, outpre |-> o, free |-> FALSE]

(* not-gofmt-able function arguments in --stub mode are outside the documented input     *)
(* contract (DESIGN section 9, #13): not enumerated.                                     *)
Constrained(s) == ~("fmt" \in s.defects /\ s.stub)

Scenarios ==
  CASE Family = "quick" ->
         {Scenario(p, d, f, o) : p \in Pats, d \in Defects(0), f \in {Flags(FALSE, FALSE, FALSE, FALSE), Flags(TRUE, FALSE, FALSE, FALSE)}, o \in OutStates}
    \cup {Scenario(p, d, f, o) : p \in {<<"good1">>, <<"good2", "nomatch">>}, d \in Defects(1), f \in AllFlagSets, o \in OutStates}
    \cup {Scenario(p, d, f, o) : p \in OnePat, d \in Defects(2), f \in {Flags(FALSE, FALSE, FALSE, FALSE)}, o \in {"absent", "file"}}
    [] Family = "thorough" ->
         {Scenario(p, d, f, o) : p \in Pats, d \in Defects(1), f \in FewFlagSets, o \in OutStates}
    \cup {Scenario(p, d, f, o) : p \in {<<"good1">>, <<"good2", "nomatch">>, <<"nomatch", "good1">>}, d \in Defects(2), f \in AllFlagSets, o \in OutStates}

Init == \E s \in {x \in Scenarios : Constrained(x)} : Init0(s)
Next == Step

Emit == Terminated => PrintT(<<"ST", ToJson([sc |-> sc, exp |-> Outcome])>>)
=============================================================================
