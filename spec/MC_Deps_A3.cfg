CONSTANT Family = "A3"
INIT Init
NEXT Next
INVARIANT Emit
INVARIANT ScopeRuleSound
INVARIANT FlagsOnlyNarrow
INVARIANT AcceptedMeansClosed
