CONSTANTS
 Position = "func"
 Alphabet = {"L", "D", "PT", "US", "SL", "QT", "ST", "AM", "SP"}
 MaxLen = 4
INIT Init
NEXT Next
INVARIANT Emit
