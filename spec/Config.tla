------------------------------- MODULE Config -------------------------------
(* Abstract configuration of gontainer: what a set of merged YAML files denotes.         *)
(* Everything optional has an explicit Unset value (merge, defaults and the getter table *)
(* distinguish unset from false/empty).  All leaves are strings so that TLC never has to *)
(* compare values of different kinds.                                                    *)
EXTENDS Naturals, Sequences, FiniteSets, TLC, SequencesExt, Functions, Names

Unset == "~"
IsSet(x) == x # Unset

-----------------------------------------------------------------------------
(* Arguments.  One record shape: k = kind, v = text, ch = chunks (patterns only).        *)
(*   int | uint64 | float | bool | null : a non-string YAML literal, v = its rendering   *)
(*   str   : a string without '%' and without a special prefix (plain text)              *)
(*   svc   : "@v"            tagged : "!tagged v"       value : "!value v"               *)
(*   self  : "$gontainer"    pat    : any other string, ch = its chunks                  *)
LitKinds == {"int", "uint64", "float", "bool", "null"}
ALit(kind, v) == [k |-> kind, v |-> v, ch |-> <<>>]
AStr(v)       == [k |-> "str", v |-> v, ch |-> <<>>]
ASvc(n)       == [k |-> "svc", v |-> n, ch |-> <<>>]
ATagged(t)    == [k |-> "tagged", v |-> t, ch |-> <<>>]
AValue(e)     == [k |-> "value", v |-> e, ch |-> <<>>]
ASelf         == [k |-> "self", v |-> "", ch |-> <<>>]
APat(chunks)  == [k |-> "pat", v |-> "", ch |-> chunks]

(* Chunks of a pattern: text | pct ("%%") | ref ("%v%") | fn ("%v(a)%")                  *)
CText(t)  == [k |-> "text", v |-> t, a |-> ""]
CPct      == [k |-> "pct", v |-> "", a |-> ""]
CRef(p)   == [k |-> "ref", v |-> p, a |-> ""]
CFn(f, a) == [k |-> "fn", v |-> f, a |-> a]
ARef(p)   == APat(<<CRef(p)>>)              \* the argument "%p%"

-----------------------------------------------------------------------------
(* Services, decorators, configuration.                                                  *)
Call(m, args, w) == [m |-> m, args |-> args, w |-> w]
Field(n, a)      == [n |-> n, a |-> a]
Tag(n, prio)     == [n |-> n, prio |-> prio]         \* prio: integer

EmptySvc == [todo |-> Unset, getter |-> Unset, must |-> Unset, type |-> Unset, value |-> Unset,
             ctor |-> Unset, args |-> <<>>, calls |-> <<>>, fields |-> <<>>, tags |-> <<>>,
             scope |-> Unset]
CtorSvc(ctor, args) == [EmptySvc EXCEPT !.ctor = ctor, !.args = args]

Dec(tag, fn, args) == [tag |-> tag, fn |-> fn, args |-> args]

EmptyMeta == [pkg |-> Unset, ctype |-> Unset, cctor |-> Unset, defmust |-> Unset,
              imports |-> <<>>, functions |-> <<>>]      \* imports/functions: Seq([n, v])

EmptyCfg == [version |-> Unset, meta |-> EmptyMeta, params |-> <<>>, services |-> <<>>,
             decorators |-> <<>>]
(* params   : function  name -> Arg (kinds: literals, str, pat)                          *)
(* services : function  name -> Service                                                  *)
(* (the empty function is written <<>>)                                                  *)

SvcNames(cfg) == DOMAIN cfg.services
ParNames(cfg) == DOMAIN cfg.params
IsTodo(svc)   == svc.todo = "true"

-----------------------------------------------------------------------------
(* What the compiler keeps of a service: a todo service keeps only its name and scope.   *)
Eff(svc) == IF IsTodo(svc) THEN [EmptySvc EXCEPT !.todo = "true", !.scope = svc.scope] ELSE svc

(* All arguments of a service in the order the code visits them (output.Service.AllArgs):*)
(* constructor arguments, call arguments in call order, field values in field-name order.*)
SortedFields(svc) == SortSeq(svc.fields, LAMBDA x, y : NameLt(x.n, y.n))
AllArgs(svc0) ==
  LET svc == Eff(svc0) IN
  svc.args \o FlattenSeq([i \in 1..Len(svc.calls) |-> svc.calls[i].args])
           \o [i \in 1..Len(svc.fields) |-> SortedFields(svc)[i].a]

ArgSvcRefs(a) == IF a.k = "svc" THEN {a.v} ELSE {}
ArgTagRefs(a) == IF a.k = "tagged" THEN {a.v} ELSE {}
ArgParRefs(a) == IF a.k = "pat" THEN {a.ch[i].v : i \in {j \in 1..Len(a.ch) : a.ch[j].k = "ref"}} ELSE {}

SeqUnion(seq, Op(_)) == UNION {Op(seq[i]) : i \in 1..Len(seq)}

SvcSvcRefs(svc) == SeqUnion(AllArgs(svc), ArgSvcRefs)
SvcTagRefs(svc) == SeqUnion(AllArgs(svc), ArgTagRefs)
SvcParRefs(svc) == SeqUnion(AllArgs(svc), ArgParRefs)
SvcTags(svc)    == {Eff(svc).tags[i].n : i \in 1..Len(Eff(svc).tags)}
DecSvcRefs(d)   == SeqUnion(d.args, ArgSvcRefs)
DecTagRefs(d)   == SeqUnion(d.args, ArgTagRefs)
DecParRefs(d)   == SeqUnion(d.args, ArgParRefs)
=============================================================================
