CONSTANT Family = "M"
INIT Init
NEXT Next
INVARIANT Emit
INVARIANT ScopeRuleSound
INVARIANT FlagsOnlyNarrow
INVARIANT AcceptedMeansClosed
