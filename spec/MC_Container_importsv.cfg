CONSTANT Family = "importsv"
CONSTANT MaxHist = 3
INIT Init
NEXT Next
INVARIANT Emit
INVARIANT SharedOnce
INVARIANT ContextIsolation
INVARIANT SharedNeverHoldsContextual
