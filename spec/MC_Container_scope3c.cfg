CONSTANT Family = "scope3"
CONSTANT MaxHist = 0
INIT Init
NEXT Next
INVARIANT Emit
INVARIANT SharedOnce
INVARIANT ContextIsolation
INVARIANT SharedNeverHoldsContextual
