INIT TInit
NEXT TNext
CONSTRAINT HW
INVARIANT ConstructedOnce
INVARIANT EvaluatedOnce
POSTCONDITION Report
