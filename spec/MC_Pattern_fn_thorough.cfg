CONSTANTS
 Alphabet = {"L", "D", "LP", "RP", "QT", "SP", "PCT", "DOT"}
 MaxLen = 5
 Wrap = "fncall"
 MinPct = 0
INIT Init
NEXT Next
INVARIANT Emit
INVARIANT InvOdd
INVARIANT InvTiling
