CONSTANT Family = "tags"
CONSTANT MaxHist = 3
INIT Init
NEXT Next
INVARIANT Emit
INVARIANT SharedOnce
INVARIANT ContextIsolation
INVARIANT SharedNeverHoldsContextual
INVARIANT TaggedSorted
INVARIANT SplitInvariant
