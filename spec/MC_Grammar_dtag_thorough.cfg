CONSTANTS
 Position = "dtag"
 Alphabet = {"L", "D", "PT", "HY", "US", "ST", "SP"}
 MaxLen = 5
INIT Init
NEXT Next
INVARIANT Emit
