CONSTANTS Majors = {0, 1, 2, 3}
 Minors = {0, 1, 2, 3, 9, 10, 11}
 Patches = {0, 7}
 SuffixNames = {"none", "pre", "bld", "both"}
INIT Init
NEXT Next
INVARIANT Emit
INVARIANT PatchIrrelevant
