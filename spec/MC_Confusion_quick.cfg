CONSTANTS
 NPos = 47
 Kinds = {"alias", "at", "bigint", "bool", "emptymap", "emptyseq", "emptystr", "float", "inf", "int", "map", "mergekey", "multiline", "negint", "nested", "null", "pct", "seq", "str", "tagbinary", "taggedcustom", "tagset", "tagstr", "timestamp"}
 PairKinds = {"null", "seq"}
INIT Init
NEXT Next
INVARIANT Emit
