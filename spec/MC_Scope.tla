------------------------------ MODULE MC_Scope ------------------------------
EXTENDS Grammar, Json
VARIABLE s
ScopeCandidates == ScopeKeywords \cup {"", " ", "Shared", "SHARED", "shared ", " shared", "non-shared", "nonshared", "non_Shared", "contextual_",
                                      "context", "default", "singleton", "~", "null", "true", "0", "1", "shared,contextual"}
Init == s \in ScopeCandidates
Next == FALSE /\ UNCHANGED s
Emit == PrintT(<<"ST", ToJson([s |-> s, ok |-> s \in ScopeKeywords])>>)
=============================================================================
