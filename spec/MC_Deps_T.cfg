CONSTANT Family = "T"
INIT Init
NEXT Next
INVARIANT Emit
INVARIANT ScopeRuleSound
INVARIANT FlagsOnlyNarrow
INVARIANT AcceptedMeansClosed
