------------------------------- MODULE Grammar -------------------------------
(* The documented input language, position by position (C11), as recognisers over symbol  *)
(* classes.  Written from docs/*.md and the comments in regex/consts.go:                   *)
(*   name   : a letter, then letters/digits, each optionally preceded by ONE of . - _      *)
(*   ident  : ASCII letter, then letters / digits / _                                      *)
(*   path   : letter, then [A-Za-z0-9._-] with single '/' separators, not ending in '/'    *)
(*   import : path | "path" | "."                                                          *)
(*   func   : [import .] ident                 (constructor, decorator, function)          *)
(*   type   : [*] [import .] ident                                                         *)
(*   value  : [&|*] [import .] ident (. ident)*  |  [&] [import .] ident {}                *)
(*   dtag   : * | name                         (decorator tag)                             *)
(*   arg    : @name | !tagged ws+ name | !value ws+ value | anything else (a pattern)      *)
(* Symbols: L letter, D digit, US _, PT ., HY -, SL /, QT ", ST *, AM &, LB {, RB },      *)
(*          SP space, AT @, KV the text "!value", KT the text "!tagged", O anything else.  *)
EXTENDS Naturals, Sequences, FiniteSets, TLC

Sub(x, a, b) == SubSeq(x, a, b)
Last1(x) == x[Len(x)]

IsIdent(x) == Len(x) >= 1 /\ x[1] = "L" /\ \A i \in 2..Len(x) : x[i] \in {"L", "D", "US"}

IsName(x) ==
  /\ Len(x) >= 1 /\ x[1] = "L"
  /\ \A i \in 2..Len(x) : x[i] \in {"L", "D", "US", "PT", "HY"}
  /\ Last1(x) \in {"L", "D"}
  /\ \A i \in 2..(Len(x) - 1) : ~(x[i] \in {"US", "PT", "HY"} /\ x[i + 1] \in {"US", "PT", "HY"})

IsPath(x) ==
  /\ Len(x) >= 1 /\ x[1] = "L"
  /\ \A i \in 2..Len(x) : x[i] \in {"L", "D", "US", "PT", "HY", "SL"}
  /\ Last1(x) # "SL"
  /\ \A i \in 2..(Len(x) - 1) : ~(x[i] = "SL" /\ x[i + 1] = "SL")

IsImport(x) ==
  \/ IsPath(x)
  \/ (Len(x) >= 3 /\ x[1] = "QT" /\ Last1(x) = "QT" /\ IsPath(Sub(x, 2, Len(x) - 1)))
  \/ x = <<"QT", "PT", "QT">>

(* [import .] rest, where Rest recognises what follows the import *)
WithImport(x, Rest(_)) ==
  \/ Rest(x)
  \/ \E k \in 2..(Len(x) - 1) : x[k] = "PT" /\ IsImport(Sub(x, 1, k - 1)) /\ Rest(Sub(x, k + 1, Len(x)))

IsFunc(x) == WithImport(x, IsIdent)

Strip(x, sym) == IF Len(x) >= 1 /\ x[1] = sym THEN Tail(x) ELSE x
IsType(x) == IsFunc(Strip(x, "ST")) /\ Len(Strip(x, "ST")) >= 1

RECURSIVE IsDotted(_)
IsDotted(x) ==          \* ident (. ident)*
  \/ IsIdent(x)
  \/ \E k \in 2..(Len(x) - 1) : x[k] = "PT" /\ IsIdent(Sub(x, 1, k - 1)) /\ IsDotted(Sub(x, k + 1, Len(x)))
IsStructLit(x) == Len(x) >= 3 /\ x[Len(x) - 1] = "LB" /\ Last1(x) = "RB" /\ IsIdent(Sub(x, 1, Len(x) - 2))
IsValue(x) ==
  \/ LET y == Strip(x, "AM") IN Len(y) >= 1 /\ (WithImport(y, IsDotted) \/ WithImport(y, IsStructLit))
  \/ (Len(x) >= 2 /\ x[1] = "ST" /\ WithImport(Tail(x), IsDotted))       \* *Var : the dereferenced variable (docs/SERVICES.md)

IsDecoratorTag(x) == x = <<"ST">> \/ IsName(x)

(* Arguments: the first matching form decides; a string that starts like a special form    *)
(* but is not one is an error, it does not fall through to the pattern form                *)
LeadingSpaces(x, from) == IF from <= Len(x) /\ x[from] = "SP"
                          THEN (CHOOSE n \in 1..(Len(x) - from + 1) : (\A j \in from..(from + n - 1) : x[j] = "SP")
                                                                      /\ (from + n > Len(x) \/ x[from + n] # "SP"))
                          ELSE 0
(* docs/SERVICES.md lists `!value *MyVar` among the supported forms of an injected value *)
IsArgValue(y) == IsValue(y)
ArgClass(x) ==
  IF Len(x) >= 1 /\ x[1] = "KV" /\ LeadingSpaces(x, 2) >= 1 THEN
       (IF IsArgValue(Sub(x, 2 + LeadingSpaces(x, 2), Len(x))) THEN "value" ELSE "error")
  ELSE IF Len(x) >= 1 /\ x[1] = "AT" THEN
       (IF IsName(Tail(x)) THEN "service" ELSE "error")
  ELSE IF Len(x) >= 1 /\ x[1] = "KT" /\ LeadingSpaces(x, 2) >= 1 THEN
       (IF IsName(Sub(x, 2 + LeadingSpaces(x, 2), Len(x))) THEN "tagged" ELSE "error")
  ELSE "pattern"

InLanguage(pos, x) ==
  CASE pos = "name"   -> IsName(x)
    [] pos = "ident"  -> IsIdent(x)
    [] pos = "import" -> IsImport(x)
    [] pos = "func"   -> IsFunc(x)
    [] pos = "type"   -> IsType(x)
    [] pos = "value"  -> IsValue(x)
    [] pos = "dtag"   -> IsDecoratorTag(x)
    [] pos = "arg"    -> ArgClass(x) # "error"

ScopeKeywords == {"shared", "contextual", "non_shared"}
=============================================================================
