------------------------- MODULE MC_ContainerConcInv -------------------------
(* The instances of MC_ContainerConc checked against the inductive invariant of            *)
(* ContainerConcProofs: TLC evaluates the proof's assumption ConstAssump on the instance    *)
(* and Inv in every reachable state (the proof itself is checked by tlapm).                 *)
EXTENDS MC_ContainerConc, ContainerConcProofs
=============================================================================
