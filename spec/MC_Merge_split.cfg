CONSTANT Family = "split"
INIT Init
NEXT Next
INVARIANT Emit
INVARIANT Associative
INVARIANT Identity
INVARIANT SplitBack
