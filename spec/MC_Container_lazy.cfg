CONSTANT Family = "lazy"
CONSTANT MaxHist = 3
INIT Init
NEXT Next
INVARIANT Emit
INVARIANT SharedOnce
INVARIANT ContextIsolation
INVARIANT SharedNeverHoldsContextual
INVARIANT TodoFails
INVARIANT LazyParams
INVARIANT NotCachedOnFailure
