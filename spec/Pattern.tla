------------------------------- MODULE Pattern -------------------------------
(* Lexical layer of parameters / %patterns% (C03): the chunker as the scanner it is in    *)
(* token/chunker.go (opened, buffer start, emitted chunks; one Feed per rune), and the    *)
(* classification of chunks in the order of the token factories (registered functions,   *)
(* %%, reference, unexpected function, unexpected token, plain string).                   *)
(* TLC cannot look inside TLA+ strings, so a text is a sequence of symbol classes:        *)
(*   PCT %   L letter   D digit   US _   DOT . or -   LP (   RP )   QT "   SP space       *)
(*   NL newline   O any other rune (multi-byte, astral, quotes, backslash, tab, ...)      *)
(* One abstract string stands for the family of concrete strings the harness draws from it.*)
EXTENDS Naturals, Sequences, FiniteSets, TLC

Symbols == {"PCT", "L", "D", "US", "DOT", "LP", "RP", "QT", "SP", "NL", "O"}

-----------------------------------------------------------------------------
(* The scanner.  `chunks` holds [from, to, delim]; positions index the string.            *)
ScanInit == [opened |-> FALSE, start |-> 1, chunks |-> <<>>]

Feed(sc, i, c) ==                  \* i = position of symbol c
  IF c = "PCT" THEN
     IF sc.opened
     THEN [opened |-> FALSE, start |-> i + 1, chunks |-> Append(sc.chunks, [from |-> sc.start, to |-> i, delim |-> TRUE])]
     ELSE [opened |-> TRUE, start |-> i,
           chunks |-> IF sc.start <= i - 1 THEN Append(sc.chunks, [from |-> sc.start, to |-> i - 1, delim |-> FALSE]) ELSE sc.chunks]
  ELSE sc

RECURSIVE ScanFrom(_, _, _)
ScanFrom(s, i, sc) == IF i > Len(s) THEN sc ELSE ScanFrom(s, i + 1, Feed(sc, i, s[i]))
Scan(s) == ScanFrom(s, 1, ScanInit)

Unclosed(s) == Scan(s).opened
(* chunks of a closed string; the empty string is one empty text chunk *)
ChunksOf(s) ==
  LET sc == Scan(s) IN
  IF s = <<>> THEN <<[from |-> 1, to |-> 0, delim |-> FALSE]>>
  ELSE IF sc.start <= Len(s) THEN Append(sc.chunks, [from |-> sc.start, to |-> Len(s), delim |-> FALSE]) ELSE sc.chunks

-----------------------------------------------------------------------------
(* Token classes *)
IsGoToken(x) == Len(x) >= 1 /\ x[1] = "L" /\ \A i \in 2..Len(x) : x[i] \in {"L", "D", "US"}
IsYamlToken(x) ==
  /\ Len(x) >= 1 /\ x[1] = "L"
  /\ \A i \in 2..Len(x) : x[i] \in {"L", "D", "US", "DOT"}
  /\ x[Len(x)] \in {"L", "D"}
  /\ \A i \in 2..(Len(x) - 1) : ~(x[i] \in {"US", "DOT"} /\ x[i + 1] \in {"US", "DOT"})

Inner(s, ch) == SubSeq(s, ch.from + 1, ch.to - 1)
FirstLP(x) == IF \E i \in 1..Len(x) : x[i] = "LP" THEN CHOOSE i \in 1..Len(x) : x[i] = "LP" /\ \A j \in 1..(i - 1) : x[j] # "LP" ELSE 0
(* GoToken "(" anything-without-newline ")" *)
IsFnShape(x) ==
  LET k == FirstLP(x) IN
  /\ k >= 2 /\ IsGoToken(SubSeq(x, 1, k - 1))
  /\ Len(x) > k /\ x[Len(x)] = "RP"
  /\ \A i \in (k + 1)..(Len(x) - 1) : x[i] # "NL"
FnName(x) == SubSeq(x, 1, FirstLP(x) - 1)
FnArgs(x) == SubSeq(x, FirstLP(x) + 1, Len(x) - 1)

(* registered function names (the harness registers a, aa, a7) *)
Registered == {<<"L">>, <<"L", "L">>, <<"L", "D">>}

(* the documented contract covers Go argument lists; anything else between the parentheses *)
(* is the user's responsibility: Unconstrained                                             *)
ArgsClass(a) ==
  IF a = <<>> THEN "none"
  ELSE IF \A i \in 1..Len(a) : a[i] = "D" THEN "int"
  ELSE IF Len(a) >= 2 /\ a[1] = "QT" /\ a[Len(a)] = "QT" /\ \A i \in 2..(Len(a) - 1) : a[i] \in {"L", "D", "SP", "DOT", "US", "LP", "RP"} THEN "str"
  ELSE "unconstrained"

ChunkKind(s, ch) ==
  IF ~ch.delim THEN "text"
  ELSE LET x == Inner(s, ch) IN
       IF IsFnShape(x) /\ FnName(x) \in Registered THEN "fn"
       ELSE IF x = <<>> THEN "pct"
       ELSE IF IsYamlToken(x) THEN "ref"
       ELSE IF IsFnShape(x) THEN "badfn"
       ELSE "badtoken"

Kinds(s) == [i \in 1..Len(ChunksOf(s)) |-> ChunkKind(s, ChunksOf(s)[i])]

Verdict(s) ==
  IF Unclosed(s) THEN "reject"
  ELSE LET ks == Kinds(s)  cs == ChunksOf(s) IN
       IF \E i \in 1..Len(ks) : ks[i] \in {"badfn", "badtoken"} THEN "reject"
       ELSE IF \E i \in 1..Len(ks) : ks[i] = "fn" /\ ArgsClass(FnArgs(Inner(s, cs[i]))) = "unconstrained" THEN "unconstrained"
       ELSE "ok"

(* what the harness needs to assemble the expected value of an accepted string *)
Describe(s) ==
  LET cs == ChunksOf(s) IN
  [i \in 1..Len(cs) |->
     [k |-> ChunkKind(s, cs[i]), from |-> cs[i].from, to |-> cs[i].to,
      nameLen |-> IF ChunkKind(s, cs[i]) = "fn" THEN Len(FnName(Inner(s, cs[i]))) ELSE 0,
      args |-> IF ChunkKind(s, cs[i]) = "fn" THEN ArgsClass(FnArgs(Inner(s, cs[i]))) ELSE ""]]

-----------------------------------------------------------------------------
(* R1 *)
(* doubling every % gives a string that is accepted and whose chunks are only text / %%   *)
Double(s) == LET F[i \in 0..Len(s)] == IF i = 0 THEN <<>> ELSE F[i - 1] \o (IF s[i] = "PCT" THEN <<"PCT", "PCT">> ELSE <<s[i]>>) IN F[Len(s)]
DoublingEscapes(s) == Verdict(Double(s)) = "ok" /\ \A i \in 1..Len(Kinds(Double(s))) : Kinds(Double(s))[i] \in {"text", "pct"}
(* a string with an odd number of % is rejected *)
PctCount(s) == Cardinality({i \in 1..Len(s) : s[i] = "PCT"})
OddRejected(s) == PctCount(s) % 2 = 1 => Verdict(s) = "reject"
(* chunk boundaries pair the % signs left to right and chunks tile the string *)
Tiling(s) == ~Unclosed(s) /\ s # <<>> =>
  LET cs == ChunksOf(s) IN
  /\ cs[1].from = 1 /\ cs[Len(cs)].to = Len(s)
  /\ \A i \in 1..(Len(cs) - 1) : cs[i + 1].from = cs[i].to + 1
  /\ \A i \in 1..Len(cs) : cs[i].delim <=> (s[cs[i].from] = "PCT" /\ s[cs[i].to] = "PCT" /\ cs[i].to > cs[i].from)

-----------------------------------------------------------------------------
(* Built-in functions env / envInt (docs/META.md): outcome as a function of the state of   *)
(* the variable and the presence of a default.                                             *)
(* classes of values of a set variable: what strconv.Atoi (the documented envInt) accepts is an optional sign and decimal   *)
(* digits that fit an int - leading zeros are decimal, no base prefixes, underscores, spaces, fractions                     *)
AtoiOk  == {"num", "lead0", "nine", "neg", "plus"}
AtoiBad == {"empty", "text", "hex", "octal", "binary", "under", "space", "trail", "big", "float", "exp"}
EnvStates == {"unset"} \cup AtoiOk \cup AtoiBad
EnvOutcome(fn, state, hasDefault) ==
  CASE fn = "env" ->
         (IF state = "unset" THEN (IF hasDefault THEN "default" ELSE "error") ELSE "value")
    [] fn = "envInt" ->
         (CASE state = "unset" -> (IF hasDefault THEN "default" ELSE "error")
            [] state \in AtoiOk -> "value"
            [] OTHER           -> "error")          \* set but not a decimal number (the empty string included): cast error
=============================================================================
