------------------------------ MODULE MergeCore ------------------------------
(* Merging of input files (input/merge.go): files are folded left to right, starting     *)
(* from the default input.  For the same key a later file's scalar attributes override,  *)
(* mappings are united key-wise with later values winning, non-empty arguments replace,  *)
(* calls, tags and decorators are appended.                                              *)
(* This module holds the non-recursive part (one merge step) so that the proof system,   *)
(* which has no RECURSIVE, can load it (MergeProofs.tla); Merge.tla adds the fold.        *)
EXTENDS Config

Later(a, b) == IF IsSet(b) THEN b ELSE a

(* key/value sequences (imports, functions, fields): union by key, later value wins; the *)
(* order of the result carries no meaning (the code sorts keys wherever it iterates)     *)
Keys(kv) == {kv[i].n : i \in 1..Len(kv)}
MergeKV(a, b) == SelectSeq(a, LAMBDA e : e.n \notin Keys(b)) \o b

MergeFn(a, b) == [k \in (DOMAIN a) \cup (DOMAIN b) |-> IF k \in DOMAIN b THEN b[k] ELSE a[k]]

MergeMeta(a, b) ==
  [pkg |-> Later(a.pkg, b.pkg), ctype |-> Later(a.ctype, b.ctype), cctor |-> Later(a.cctor, b.cctor),
   defmust |-> Later(a.defmust, b.defmust), imports |-> MergeKV(a.imports, b.imports),
   functions |-> MergeKV(a.functions, b.functions)]

MergeSvc(a, b) ==
  [todo |-> Later(a.todo, b.todo), getter |-> Later(a.getter, b.getter), must |-> Later(a.must, b.must),
   type |-> Later(a.type, b.type), value |-> Later(a.value, b.value), ctor |-> Later(a.ctor, b.ctor),
   args |-> IF Len(b.args) > 0 THEN b.args ELSE a.args,
   calls |-> a.calls \o b.calls, fields |-> MergeKV(a.fields, b.fields), tags |-> a.tags \o b.tags,
   scope |-> Later(a.scope, b.scope)]

MergeServices(a, b) ==
  [s \in (DOMAIN a) \cup (DOMAIN b) |->
     IF s \in DOMAIN a /\ s \in DOMAIN b THEN MergeSvc(a[s], b[s]) ELSE IF s \in DOMAIN b THEN b[s] ELSE a[s]]

Merge(a, b) ==
  [version |-> Later(a.version, b.version), meta |-> MergeMeta(a.meta, b.meta),
   params |-> MergeFn(a.params, b.params), services |-> MergeServices(a.services, b.services),
   decorators |-> a.decorators \o b.decorators]
=============================================================================
