--------------------------- MODULE Trace_Pipeline ---------------------------
(* Trace validation for Pipeline: every recorded run of the real command (its own        *)
(* progress report parsed into step events, plus exit status and file effect observed by *)
(* the harness) must be a behaviour of Pipeline for the scenario it was run in.  Many    *)
(* runs are concatenated; a "run" event starts the next one.  In --quiet mode nothing is *)
(* printed, so the steps are taken silently and only exit and file effect are matched.   *)
EXTENDS Pipeline, Json, SequencesExt

VARIABLES l, phase          \* position in Trace; phase of the current run: steps | listed | exited | idle
tvars == <<pvars, l, phase>>

Trace == ndJsonDeserialize("trace.ndjson")
Ev == Trace[l]
Is(e) == l <= Len(Trace) /\ Ev.ev = e
Consume == l' = l + 1

ScOf(j) == [pats |-> j.pats, defects |-> ToSet(j.defects), quiet |-> j.quiet, stub |-> j.stub,
            ignoreP |-> j.ignoreP, ignoreS |-> j.ignoreS, outpre |-> j.outpre, free |-> j.free]

TraceInit ==
  /\ TLCSet(1, 0)
  /\ l = 1 /\ phase = "idle"
  /\ sc = [pats |-> <<>>, defects |-> {}, quiet |-> FALSE, stub |-> FALSE, ignoreP |-> FALSE, ignoreS |-> FALSE, outpre |-> "absent", free |-> FALSE]
  /\ pc = "idle" /\ steps = <<>> /\ subs = <<>> /\ nerr = 0 /\ exit = Running /\ out = "pre"

TraceRun == Is("run") /\ phase = "idle" /\ Start(ScOf(Ev.sc)) /\ phase' = "steps" /\ Consume

(* a printed step line: the specification must take exactly that step with that outcome  *)
TraceTop ==
  /\ Is("step") /\ Ev.d = 0 /\ phase = "steps" /\ ~sc.quiet
  /\ \/ DefaultInput \/ ValidateEnd \/ ReadConfig(Ev.c) \/ Compile(Ev.c) \/ Generate(Ev.c)
     \/ (Ev.c = 0 /\ (ReadConfig(1) \/ Compile(1) \/ Generate(1)))
  /\ Last(steps') = StepRec(Ev.n, 0, Ev.st, Ev.c)
  /\ UNCHANGED phase /\ Consume

TraceRule ==
  /\ Is("step") /\ Ev.d = 1 /\ phase = "steps" /\ ~sc.quiet
  /\ Rule(Ev.c)
  /\ Last(subs') = StepRec(Ev.n, 1, Ev.st, Ev.c)
  /\ UNCHANGED phase /\ Consume

(* --quiet: steps are not observable *)
Silent ==
  /\ phase = "steps" /\ sc.quiet /\ ~Terminated
  /\ \/ DefaultInput \/ ValidateEnd
     \/ \E n \in 0..1 : ReadConfig(n) \/ Compile(n) \/ Rule(n) \/ Generate(n)
  /\ UNCHANGED <<l, phase>>

(* the numbered error list: as long as the failing step said *)
TraceErrors ==
  /\ Is("errors") /\ phase = "steps" /\ ~sc.quiet
  /\ pc = "failed" /\ Ev.n = nerr
  /\ phase' = "listed" /\ Consume /\ UNCHANGED pvars

TraceExit ==
  /\ Is("exit") /\ Terminated
  /\ IF sc.quiet THEN phase = "steps" /\ Ev.printed = FALSE
     ELSE /\ Ev.printed = TRUE
          /\ IF exit = 1 THEN phase = "listed" ELSE phase = "steps"
  /\ Ev.code = exit
  /\ phase' = "exited" /\ Consume /\ UNCHANGED pvars

TraceOut ==
  /\ Is("out") /\ phase = "exited"
  /\ Ev.st = out
  /\ phase' = "idle" /\ Consume /\ UNCHANGED pvars

TraceNext == TraceRun \/ TraceTop \/ TraceRule \/ Silent \/ TraceErrors \/ TraceExit \/ TraceOut

(* high-water mark of consumed lines (needs -workers 1) *)
HW == IF l > TLCGet(1) THEN TLCSet(1, l) ELSE TRUE
HWInit == TLCSet(1, 0)
Report == PrintT(<<"HW", TLCGet(1), Len(Trace)>>)
=============================================================================
