INIT Init
NEXT Next
INVARIANT Emit
