---- MODULE SequencesExt ----
(* stub for tlapm only (the proof system does not ship the CommunityModules): the proofs   *)
(* of MergeProofs never expand this operator                                               *)
FlattenSeq(s) == CHOOSE x : TRUE
====
