---- MODULE Functions ----
====
