---------------------------- MODULE MergeProofs ----------------------------
(* Machine-checked (TLAPS) proofs that the building blocks of Merge (input/merge.go) are    *)
(* associative and have the empty configuration's attributes as identity, for EVERY value   *)
(* - the unbounded counterpart of what TLC checks on the enumerated triples of MC_Merge     *)
(* (Associative, Identity).  Split invariance (C09) of scalar attributes, parameter         *)
(* mappings, arguments and appended lists follows attribute by attribute from these.        *)
EXTENDS MergeCore, TLAPS

(* scalar attributes: the later set value wins *)
THEOREM LaterAssoc == \A a, b, c : Later(Later(a, b), c) = Later(a, Later(b, c))
  BY DEF Later, IsSet, Unset

THEOREM LaterIdentity == \A a : Later(Unset, a) = a /\ Later(a, Unset) = a
  BY DEF Later, IsSet, Unset

(* a later file that does not mention the attribute keeps it; an explicit value overrides *)
THEOREM LaterKeepsOrOverrides == \A a, b : (b = Unset => Later(a, b) = a) /\ (b # Unset => Later(a, b) = b)
  BY DEF Later, IsSet, Unset

(* mappings (parameters): key-wise union, later value wins *)
THEOREM MergeFnDomain == \A a, b : DOMAIN MergeFn(a, b) = (DOMAIN a) \cup (DOMAIN b)
  BY DEF MergeFn

THEOREM MergeFnAssoc == \A a, b, c : MergeFn(MergeFn(a, b), c) = MergeFn(a, MergeFn(b, c))
<1> TAKE a, b, c
<1>1. DOMAIN MergeFn(MergeFn(a, b), c) = DOMAIN MergeFn(a, MergeFn(b, c))
  BY DEF MergeFn
<1>2. \A k \in DOMAIN MergeFn(MergeFn(a, b), c) : MergeFn(MergeFn(a, b), c)[k] = MergeFn(a, MergeFn(b, c))[k]
  BY DEF MergeFn
<1>3. MergeFn(MergeFn(a, b), c) = [k \in DOMAIN MergeFn(MergeFn(a, b), c) |-> MergeFn(MergeFn(a, b), c)[k]]
  BY DEF MergeFn
<1>4. MergeFn(a, MergeFn(b, c)) = [k \in DOMAIN MergeFn(a, MergeFn(b, c)) |-> MergeFn(a, MergeFn(b, c))[k]]
  BY DEF MergeFn
<1> QED BY <1>1, <1>2, <1>3, <1>4

THEOREM MergeFnIdentity == \A a : (a = [k \in DOMAIN a |-> a[k]]) => MergeFn(<<>>, a) = a /\ MergeFn(a, <<>>) = a
<1> TAKE a
<1> HAVE a = [k \in DOMAIN a |-> a[k]]
<1>1. DOMAIN <<>> = {}
  OBVIOUS
<1> QED BY <1>1 DEF MergeFn

(* arguments: a non-empty later list replaces *)
ArgsMerge(a, b) == IF Len(b) > 0 THEN b ELSE a
THEOREM ArgsAssoc == \A a, b, c : ArgsMerge(ArgsMerge(a, b), c) = ArgsMerge(a, ArgsMerge(b, c))
  BY DEF ArgsMerge

(* calls, tags, decorators: appended *)
THEOREM AppendAssoc == \A a, b, c \in Seq(STRING) : (a \o b) \o c = a \o (b \o c)
  OBVIOUS

(* a service defined in both files: attribute by attribute (without fields, whose order carries no meaning) *)
THEOREM SvcScalarAssoc ==
  \A a, b, c : /\ MergeSvc(MergeSvc(a, b), c).todo   = MergeSvc(a, MergeSvc(b, c)).todo
               /\ MergeSvc(MergeSvc(a, b), c).getter = MergeSvc(a, MergeSvc(b, c)).getter
               /\ MergeSvc(MergeSvc(a, b), c).must   = MergeSvc(a, MergeSvc(b, c)).must
               /\ MergeSvc(MergeSvc(a, b), c).type   = MergeSvc(a, MergeSvc(b, c)).type
               /\ MergeSvc(MergeSvc(a, b), c).value  = MergeSvc(a, MergeSvc(b, c)).value
               /\ MergeSvc(MergeSvc(a, b), c).ctor   = MergeSvc(a, MergeSvc(b, c)).ctor
               /\ MergeSvc(MergeSvc(a, b), c).scope  = MergeSvc(a, MergeSvc(b, c)).scope
               /\ MergeSvc(MergeSvc(a, b), c).args   = MergeSvc(a, MergeSvc(b, c)).args
  BY DEF MergeSvc, Later, IsSet, Unset
=============================================================================
