CONSTANTS
 G <- TG
 Svc <- TSvc
 Par <- TPar
 ScopeOf <- TScope
 DepsOf <- TDeps
 Ops <- TOps
INIT TInit
NEXT TNext
CONSTRAINT HW
INVARIANT ConstructedOnce
INVARIANT EvaluatedOnce
INVARIANT ContextIsolation
INVARIANT SharedAgreed
INVARIANT MutualExclusion
POSTCONDITION Report
