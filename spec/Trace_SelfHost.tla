--------------------------- MODULE Trace_SelfHost ---------------------------
EXTENDS SelfHost, Json
VARIABLE l
Trace == ndJsonDeserialize("trace.ndjson")
Is(e) == l <= Len(Trace) /\ Trace[l].ev = e
TInit == SInit /\ l = 1
TNext == \/ Is("build") /\ Build /\ l' = l + 1
         \/ Is("regen") /\ Regen(Trace[l].digest) /\ l' = l + 1
         \/ Is("install") /\ Install /\ l' = l + 1
Done == l = Len(Trace) + 1
Accepted == TLCGet("stats").diameter - 1 = Len(Trace)
=============================================================================
