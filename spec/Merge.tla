-------------------------------- MODULE Merge --------------------------------
(* Folding of the input files with the merge step of MergeCore, and equality of          *)
(* configurations up to the order of key/value sequences.                                *)
EXTENDS MergeCore

RECURSIVE MergeFrom(_, _, _)
MergeFrom(acc, files, i) == IF i > Len(files) THEN acc ELSE MergeFrom(Merge(acc, files[i]), files, i + 1)
MergeAll(files) == MergeFrom(EmptyCfg, files, 1)

(* Equality of configurations up to the order of key/value sequences.                    *)
KVSet(kv) == {<<kv[i].n, kv[i].v>> : i \in 1..Len(kv)}
FieldSet(kv) == {<<kv[i].n, kv[i].a>> : i \in 1..Len(kv)}
NormSvc(s) == [s EXCEPT !.fields = FieldSet(s.fields)]
Norm(c) == [c EXCEPT !.meta = [c.meta EXCEPT !.imports = KVSet(c.meta.imports), !.functions = KVSet(c.meta.functions)],
                     !.services = [s \in DOMAIN c.services |-> NormSvc(c.services[s])]]
SameCfg(a, b) == Norm(a) = Norm(b)
=============================================================================
