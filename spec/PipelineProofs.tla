--------------------------- MODULE PipelineProofs ---------------------------
(* Machine-checked (TLAPS) proof that the output-file contract of C10 is an inductive       *)
(* invariant of Pipeline for EVERY scenario and any bound on the number of errors - the     *)
(* unbounded counterpart of what TLC checks on the enumerated scenarios.                    *)
EXTENDS Pipeline, TLAPS

NonTerminal == {"Default input", "Read config", "Compile", "rule1", "rule2", "rule3", "rule4", "rules_end", "Generate code"}

Contract ==
  /\ pc \in NonTerminal \cup {"done", "failed"}
  /\ pc = "done" => (exit = 0 /\ out = "new")
  /\ pc = "failed" => (exit = 1 /\ out = "pre")
  /\ pc \in NonTerminal => (exit = Running /\ out = "pre")

LEMMA InitContract == \A s : Init0(s) => Contract
  BY DEF Init0, Contract, NonTerminal, Running

LEMMA OkKeeps == ASSUME NEW name, NEW nextpc \in NonTerminal, Contract, pc \in NonTerminal, Ok(name, nextpc) PROVE Contract'
  BY DEF Ok, Contract, NonTerminal, Running

LEMMA FailKeeps == ASSUME NEW name, NEW n, Contract, pc \in NonTerminal, Fail(name, n) PROVE Contract'
  BY DEF Fail, Contract, NonTerminal, Running

LEMMA StepContract == Contract /\ [Step]_pvars => Contract'
<1> SUFFICES ASSUME Contract, [Step]_pvars PROVE Contract'
  OBVIOUS
<1>1. CASE UNCHANGED pvars
  BY <1>1 DEF Contract, pvars
<1>2. CASE DefaultInput
  BY <1>2, OkKeeps DEF DefaultInput, NonTerminal
<1>3. CASE ValidateEnd
  BY <1>3, OkKeeps, FailKeeps DEF ValidateEnd, NonTerminal
<1>4. ASSUME NEW n \in 0..MaxErr, ReadConfig(n) PROVE Contract'
  BY <1>4, OkKeeps, FailKeeps DEF ReadConfig, Either, NonTerminal
<1>5. ASSUME NEW n \in 0..MaxErr, Compile(n) PROVE Contract'
  BY <1>5, OkKeeps, FailKeeps DEF Compile, Either, NonTerminal
<1>6. ASSUME NEW n \in 0..MaxErr, Rule(n) PROVE Contract'
  BY <1>6 DEF Rule, RuleIdx, NextRulePc, Contract, NonTerminal, Running
<1>7. ASSUME NEW n \in 0..MaxErr, Generate(n) PROVE Contract'
  BY <1>7, FailKeeps DEF Generate, GenOk, Contract, NonTerminal, Running
<1> QED
  BY <1>1, <1>2, <1>3, <1>4, <1>5, <1>6, <1>7 DEF Step

(* the contract implies the properties TLC checks as ExitIff, Untouched and WriteLast *)
THEOREM ContractImplies == Contract => (ExitIff /\ Untouched /\ WriteLast)
  BY DEF Contract, ExitIff, Untouched, WriteLast, Terminated, NonTerminal, Running
=============================================================================
