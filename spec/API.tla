--------------------------------- MODULE API ---------------------------------
(* The API surface of the generated container (C13, C17): names, getter methods and their *)
(* signatures as a function of getter / type / must_getter / default_must_getter.         *)
EXTENDS Config

(* the container's own API (docs/INTERFACE.md) and the embedded field *)
RuntimeAPI == {"Get", "GetInContext", "CircularDeps", "OverrideService", "AddDecorator", "IsTaggedBy", "GetTaggedBy",
               "GetTaggedByInContext", "GetParam", "OverrideParam", "HotSwap", "Root"}
EmbeddedField == "Container"

(* TLA+ strings have no structure: the getter names the families use are classified here  *)
GetterClass(g) ==
  CASE g \in RuntimeAPI \cup {EmbeddedField} -> "reserved"
    [] g \in {"MustGetA", "MustGetB", "Must"} -> "mustprefix"
    [] g \in {"GetAInContext", "InContext"} -> "ctxsuffix"
    [] g \in {"GetA", "GetB", "GetS1", "GetS4", "Fetch_1"} -> "ok"
    [] g \in {"_getEnv", "_concatenateChunks", "_x", "_getEnvInt", "_paramTodo", "_callProvider"} -> "notident"      \* an identifier starts with a letter
    [] OTHER -> "unknown"
Derived(g, k) == CASE k = "ctx" -> g \o "InContext" [] k = "must" -> "Must" \o g [] k = "mustctx" -> "Must" \o g \o "InContext"

(* how reflection prints the configured type *)
TypeGo(t) ==
  CASE t = Unset -> "interface {}"
    [] t \in {"*fx.T", "*\"probe.test/fx\".T", "*T", "*\".\".T", "*probe.test/fx.T"} -> "*obj.Obj"
    [] t \in {"fx.T", "\"probe.test/fx\".T", "T", "\".\".T"} -> "obj.Obj"
    [] t = "fx.N" -> "fx.N"          \* a named type convertible to (not assignable from) what the constructor returns
    [] OTHER -> "?"

Live(cfg) == {s \in SvcNames(cfg) : ~IsTodo(cfg.services[s])}
WithGetter(cfg) == {s \in Live(cfg) : IsSet(cfg.services[s].getter)}

MustEff(cfg, s) ==
  LET m == cfg.services[s].must IN m = "true" \/ (m = Unset /\ cfg.meta.defmust = "true")

(* grammar violations concerning getters: <<service, class>> *)
GetterViolations(cfg) ==
     {<<s, GetterClass(cfg.services[s].getter)>> : s \in {x \in WithGetter(cfg) : GetterClass(cfg.services[x].getter) # "ok"}}
\cup {<<s, "duplicate">> : s \in {x \in WithGetter(cfg) : \E y \in WithGetter(cfg) : y # x /\ cfg.services[y].getter = cfg.services[x].getter}}
\cup {<<s, "must-without-getter">> : s \in {x \in Live(cfg) : ~IsSet(cfg.services[x].getter) /\ cfg.services[x].must = "true"}}

APIAccepted(cfg) == GetterViolations(cfg) = {}

Method(n, in, out) == [name |-> n, in |-> in, out |-> out]
GetterMethods(cfg) ==
  UNION {LET g == cfg.services[s].getter  t == TypeGo(cfg.services[s].type) IN
         {Method(g, "", t \o ",error"), Method(Derived(g, "ctx"), "context.Context", t \o ",error")}
         \cup (IF MustEff(cfg, s) THEN {Method(Derived(g, "must"), "", t), Method(Derived(g, "mustctx"), "context.Context", t)} ELSE {})
         : s \in WithGetter(cfg)}

Names(cfg) == [pkg   |-> IF IsSet(cfg.meta.pkg) THEN cfg.meta.pkg ELSE "main",
               ctype |-> IF IsSet(cfg.meta.ctype) THEN cfg.meta.ctype ELSE "Gontainer",
               cctor |-> IF IsSet(cfg.meta.cctor) THEN cfg.meta.cctor ELSE "NewGontainer"]

(* R1: in an accepted configuration generated method names are pairwise distinct and do   *)
(* not collide with the container's own API or the embedded field                         *)
NoCollision(cfg) ==
  APIAccepted(cfg) =>
    LET ms == GetterMethods(cfg) IN
    /\ \A a, b \in ms : a.name = b.name => a = b
    /\ \A a \in ms : a.name \notin RuntimeAPI \cup {EmbeddedField}
=============================================================================
