----------------------------- MODULE Determinism -----------------------------
(* C08: the generated file and the printed report are a function of the ordered list of    *)
(* input file contents, the flags and the build information only.                          *)
(*                                                                                         *)
(* Observations are runs of the real command in fresh processes (each draws fresh hash-map *)
(* iteration orders) under varying environment, working directory and - for the second     *)
(* clause - varying key order inside the YAML mappings:                                    *)
(*    Run(c, k)  : scenario c (same file contents), k-th repetition                        *)
(*    Perm(c, k) : scenario c with the keys of every mapping permuted                      *)
(* The specification remembers what the first run of a scenario produced; a later run is   *)
(* enabled only if it produced the same.  A recorded history is accepted iff the command   *)
(* behaved as a function.                                                                  *)
EXTENDS Naturals, Sequences, TLC

VARIABLES first      \* scenario -> [out, report, exit] of its first run
dvars == <<first>>
None == "none"

DInit == first = <<>>

Known(c) == c \in DOMAIN first
Remember(c, o) == first' = [x \in (DOMAIN first) \cup {c} |-> IF x = c THEN o ELSE first[x]]

(* a repetition with identical file contents: file, report and exit status all agree *)
Run(c, out, report, exit) ==
  IF Known(c)
  THEN first[c].out = out /\ first[c].report = report /\ first[c].exit = exit /\ UNCHANGED first
  ELSE Remember(c, [out |-> out, report |-> report, exit |-> exit])

(* a key permutation of every mapping: the generated file (and the verdict) agree *)
Perm(c, out, exit) ==
  /\ Known(c)
  /\ first[c].out = out /\ first[c].exit = exit
  /\ UNCHANGED first
=============================================================================
