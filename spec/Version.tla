------------------------------ MODULE Version ------------------------------
(* The version compatibility gate (docs/VERSION.md, validators_version.go, main.go).     *)
(* B = version of the build, V = version declared by the configuration.                  *)
EXTENDS Naturals, Sequences, FiniteSets, TLC

(* A semantic version: numbers plus whether a prerelease / build suffix is present.      *)
SemVer(ma, mi, pa, pre, bld) == [maj |-> ma, min |-> mi, pat |-> pa, pre |-> pre, bld |-> bld]

(* Build: kind "semver" (plain), "vsemver" (v-prefixed, as release ldflags inject it;     *)
(* main.go strips the prefix), or a non-semver label: the check is then skipped.          *)
BuildIsSemver(B) == B.kind \in {"semver", "vsemver"}

(* Declared version: kind "absent", "semver", or a malformed form (not a string holding   *)
(* a semantic version without leading v) which is a parse error.                          *)
Malformed == {"vprefixed", "integer", "float", "sequence", "garbage", "empty", "fourparts", "leadingzero", "mapping", "bool"}

Compatible(b, v) ==
  IF b.maj = 0 THEN v.maj = 0 /\ v.min = b.min
  ELSE v.maj = b.maj /\ v.min <= b.min

(* "accept" | "version" (version diagnostic from input validation) | "parse" (the file   *)
(* cannot be read as a configuration)                                                    *)
Gate(B, V) ==
  IF V.kind \in Malformed THEN "parse"
  ELSE IF V.kind = "absent" \/ ~BuildIsSemver(B) THEN "accept"
  ELSE IF Compatible(B.v, V.v) THEN "accept" ELSE "version"

(* R1: patch numbers and suffixes never matter.                                          *)
Core(x) == [maj |-> x.maj, min |-> x.min]
SuffixesIrrelevant(B, B2, V, V2) ==
  (BuildIsSemver(B) /\ BuildIsSemver(B2) /\ V.kind = "semver" /\ V2.kind = "semver"
     /\ Core(B.v) = Core(B2.v) /\ Core(V.v) = Core(V2.v)) => Gate(B, V) = Gate(B2, V2)
=============================================================================
