CONSTANTS
 Position = "arg"
 Alphabet = {"AT", "KV", "KT", "SP", "L", "PT", "AM", "QT", "HY", "LB", "RB", "ST"}
 MaxLen = 4
INIT Init
NEXT Next
INVARIANT Emit
