------------------------------- MODULE Imports -------------------------------
(* Package references (C14).  A reference's import part is a sequence of path segments     *)
(* (written unquoted or quoted), `"."`, or nothing; meta.imports maps aliases to paths.   *)
(* An alias applies iff it equals the WHOLE first segment; the rest of the path is kept.  *)
EXTENDS Naturals, Sequences, FiniteSets, TLC

Cur == <<".">>                                   \* the package the generated file belongs to

RECURSIVE JoinFrom(_, _)
JoinFrom(segs, i) == IF i > Len(segs) THEN "" ELSE (IF i > 1 THEN "/" ELSE "") \o segs[i] \o JoinFrom(segs, i + 1)
PathText(segs) == JoinFrom(segs, 1)

(* import part of a reference: [k |-> "none"] | [k |-> "dot"] | [k |-> "path", segs, quoted] *)
INone == [k |-> "none", segs |-> <<>>, quoted |-> FALSE]
IDot  == [k |-> "dot", segs |-> <<>>, quoted |-> FALSE]
IPath(segs, quoted) == [k |-> "path", segs |-> segs, quoted |-> quoted]

ImportText(i) ==
  CASE i.k = "none" -> ""
    [] i.k = "dot"  -> "\".\""
    [] i.k = "path" -> IF i.quoted THEN "\"" \o PathText(i.segs) \o "\"" ELSE PathText(i.segs)

(* text of a reference to symbol `sym` (constructor, decorator, function): [import.]sym   *)
RefText(i, sym) == IF i.k = "none" THEN sym ELSE ImportText(i) \o "." \o sym

(* alias table: sequence of [n |-> alias, segs |-> target path segments]                  *)
AliasNames(tbl) == {tbl[j].n : j \in 1..Len(tbl)}
Target(tbl, a) == (CHOOSE j \in 1..Len(tbl) : tbl[j].n = a)

Resolve(tbl, i) ==
  CASE i.k \in {"none", "dot"} -> Cur
    [] i.k = "path" ->
         IF Head(i.segs) \in AliasNames(tbl)
         THEN tbl[Target(tbl, Head(i.segs))].segs \o Tail(i.segs)
         ELSE i.segs

(* self-identification of a symbol of the resolved package *)
MadeOf(pkg, sym) == (IF pkg = Cur THEN "." ELSE PathText(pkg)) \o "." \o sym

(* R1: resolution is a function of the table and the reference text only, aliases are     *)
(* unique keys, so at most one alias applies                                               *)
TableWellFormed(tbl) == \A j, k \in 1..Len(tbl) : tbl[j].n = tbl[k].n => j = k
=============================================================================
