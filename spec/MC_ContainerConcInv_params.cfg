CONSTANTS
 Scenario = "params"
 G <- MG
 Svc <- MSvc
 Par <- MPar
 ScopeOf <- MScope
 DepsOf <- MDeps
 Ops <- MOps
INIT CInit
NEXT CNext
INVARIANT ConstructedOnce
INVARIANT EvaluatedOnce
INVARIANT ContextIsolation
INVARIANT SharedAgreed
INVARIANT MutualExclusion
INVARIANT NoDeadlock
INVARIANT Inv
INVARIANT OnceInv
INVARIANT EvalInv
INVARIANT CtxInv
INVARIANT AgreeInv
