CONSTANTS
 Alphabet = {"PCT", "L", "D", "US", "DOT", "LP", "RP", "QT", "SP", "O", "NL"}
 MaxLen = 6
 Wrap = "none"
 MinPct = 2
INIT Init
NEXT Next
INVARIANT Emit
INVARIANT EmitEnv
INVARIANT InvDoubling
INVARIANT InvOdd
INVARIANT InvTiling
