------------------------------ MODULE Container ------------------------------
(* Sequential run-time semantics of the generated container: what Get / GetInContext /   *)
(* GetTaggedBy / GetParam / getters / OverrideParam / OverrideService must return for a  *)
(* configuration, as a function of the history of operations.  Mirrors the generated     *)
(* constructor (body-constructor.go.tpl) on top of the runtime's container_services.go,  *)
(* container_params.go and container_override.go:                                        *)
(*   cache lookup -> creation (constructor arguments left to right) -> fields in name    *)
(*   order -> calls / withers in declared order -> decorators in declaration order ->    *)
(*   cache store (only on success).                                                      *)
(* Objects live in a heap (a sequence of bodies); values refer to them by index, so that *)
(* identity (shared / contextual / non_shared) is observable.                            *)
EXTENDS Deps

-----------------------------------------------------------------------------
(* Values *)
VLit(t, v)  == [k |-> "lit", t |-> t, v |-> v]
VStr(s)     == VLit("string", s)
VObj(id)    == [k |-> "obj", id |-> id]
VObjVal(b)  == [k |-> "objval", body |-> b]
VList(xs)   == [k |-> "list", items |-> xs]
VNil        == [k |-> "nil"]
VNilPtr     == [k |-> "nilptr"]
VContainer  == [k |-> "container"]

Body(made, args) == [made |-> made, args |-> args, F1 |-> VNil, F2 |-> VNil, f3 |-> VNil,
                     log |-> <<>>, prev |-> VNil, payload |-> <<>>]

IsFail(v) == v.k = "lit" /\ v.t = "string" /\ v.v = "fail"

(* Results *)
Ok(v, st)    == [ok |-> TRUE,  v |-> v,    err |-> "",  st |-> st]
Err(e, st)   == [ok |-> FALSE, v |-> VNil, err |-> e,   st |-> st]

Upd(f, key, v) == [x \in (DOMAIN f) \cup {key} |-> IF x = key THEN v ELSE f[x]]
Del(f, key)    == [x \in (DOMAIN f) \ {key} |-> f[x]]
Has(f, key)    == key \in DOMAIN f
Empty          == <<>>

-----------------------------------------------------------------------------
(* The fixture universe: what the Go symbols a configuration may name do.  made = the    *)
(* self-identifying string the fixture object carries ("<package id>.<symbol>").         *)
FxPkg == "probe.test/fx"
SymTable ==
  (  "fx.NewA" :> [made |-> FxPkg \o ".NewA", kind |-> "ptr"]  @@ "fx.NewB" :> [made |-> FxPkg \o ".NewB", kind |-> "ptr"]
  @@ "fx.NewC" :> [made |-> FxPkg \o ".NewC", kind |-> "ptr"]  @@ "fx.NewD" :> [made |-> FxPkg \o ".NewD", kind |-> "ptr"]
  @@ "fx.NewZ" :> [made |-> FxPkg \o ".NewZ", kind |-> "ptr"]  @@ "fx.NewE" :> [made |-> FxPkg \o ".NewE", kind |-> "err"]
  @@ "fx.NewV" :> [made |-> FxPkg \o ".NewV", kind |-> "val"]
  @@ "\"probe.test/fx\".NewA" :> [made |-> FxPkg \o ".NewA", kind |-> "ptr"]
  @@ "probe.test/fx.NewA" :> [made |-> FxPkg \o ".NewA", kind |-> "ptr"]
  @@ "\".\".NewA" :> [made |-> "..NewA", kind |-> "ptr"]
  @@ "NewA" :> [made |-> "..NewA", kind |-> "ptr"] @@ "NewB" :> [made |-> "..NewB", kind |-> "ptr"]
  @@ "NewC" :> [made |-> "..NewC", kind |-> "ptr"] @@ "NewD" :> [made |-> "..NewD", kind |-> "ptr"]
  @@ "NewZ" :> [made |-> "..NewZ", kind |-> "ptr"] @@ "NewE" :> [made |-> "..NewE", kind |-> "err"]
  @@ "NewV" :> [made |-> "..NewV", kind |-> "val"]
  @@ "fx.Decorate"  :> [made |-> FxPkg \o ".Decorate",  kind |-> "dec"]
  @@ "fx.DecorateB" :> [made |-> FxPkg \o ".DecorateB", kind |-> "dec"]
  @@ "fx.DecorateC" :> [made |-> FxPkg \o ".DecorateC", kind |-> "dec"]
  @@ "Decorate"  :> [made |-> "..Decorate",  kind |-> "dec"]
  @@ "DecorateB" :> [made |-> "..DecorateB", kind |-> "dec"] )

(* package-level variables: fixed objects, created once per process *)
Globals == <<Body(FxPkg \o ".Var", <<>>), Body(FxPkg \o ".Holder.Field", <<>>),
             Body("..Var", <<>>), Body("..Holder.Field", <<>>)>>
ValueTable ==
  (  "fx.Var" :> [kind |-> "global", id |-> 1] @@ "fx.Holder.Field" :> [kind |-> "global", id |-> 2]
  @@ "Var" :> [kind |-> "global", id |-> 3] @@ "Holder.Field" :> [kind |-> "global", id |-> 4]
  @@ "\".\".Var" :> [kind |-> "global", id |-> 3]
  @@ "\"probe.test/fx\".Holder.Field" :> [kind |-> "global", id |-> 2] @@ "\"probe.test/fx\".Var" :> [kind |-> "global", id |-> 1]
  @@ "&\"probe.test/fx\".S{}" :> [kind |-> "newptr", id |-> 0] @@ "\".\".S{}" :> [kind |-> "newval", id |-> 0]
  @@ "&\".\".S{}" :> [kind |-> "newptr", id |-> 0] @@ "probe.test/fx.Var" :> [kind |-> "global", id |-> 1]
  @@ "*fx.Var" :> [kind |-> "deref", id |-> 1] @@ "*Var" :> [kind |-> "deref", id |-> 3]
  @@ "&fx.S{}" :> [kind |-> "newptr", id |-> 0] @@ "&S{}" :> [kind |-> "newptr", id |-> 0]
  @@ "fx.S{}" :> [kind |-> "newval", id |-> 0] @@ "S{}" :> [kind |-> "newval", id |-> 0] )
TypeTable ==          \* zero value of a type-only service
  (  "*fx.T" :> "nilptr" @@ "*T" :> "nilptr" @@ "fx.T" :> "zeroval" @@ "T" :> "zeroval"
  @@ "*\"probe.test/fx\".T" :> "nilptr" @@ "\"probe.test/fx\".T" :> "zeroval" @@ "*\".\".T" :> "nilptr" @@ "\".\".T" :> "zeroval"
  @@ "*probe.test/fx.T" :> "nilptr" )

(* parameter functions: registered name -> what it is *)
FnTable ==
  (  "fn"    :> [made |-> FxPkg \o ".Fn",    kind |-> "str"]
  @@ "fnInt" :> [made |-> FxPkg \o ".FnInt", kind |-> "int"]
  @@ "fnE"   :> [made |-> FxPkg \o ".FnE",   kind |-> "err"]
  @@ "todo"  :> [made |-> "todo", kind |-> "todo"]
  @@ "env"   :> [made |-> "env", kind |-> "envdefault"] @@ "envInt" :> [made |-> "envInt", kind |-> "envintdefault"] )

(* the built-in env / envInt: TLC cannot look into the argument text, the families use these argument lists *)
EnvArgTable ==
  (  "\"VERIF_UNSET\", \"dflt\"" :> [var |-> "VERIF_UNSET", hasdef |-> TRUE, def |-> "dflt"]
  @@ "\"VERIF_UNSET\", 77"       :> [var |-> "VERIF_UNSET", hasdef |-> TRUE, def |-> "77"]
  @@ "\"VERIF_E1\""              :> [var |-> "VERIF_E1", hasdef |-> FALSE, def |-> ""]
  @@ "\"VERIF_E1\", \"dflt\""    :> [var |-> "VERIF_E1", hasdef |-> TRUE, def |-> "dflt"]
  @@ "\"VERIF_E2\""              :> [var |-> "VERIF_E2", hasdef |-> FALSE, def |-> ""]
  @@ "\"VERIF_E2\", 77"          :> [var |-> "VERIF_E2", hasdef |-> TRUE, def |-> "77"] )
EnvDecimal == {"8080", "17", "77"}            \* the values of the families that strconv.Atoi accepts

GoType(kind) == CASE kind = "int" -> "int" [] kind = "uint64" -> "uint64" [] kind = "float" -> "float64"
                  [] kind = "bool" -> "bool" [] OTHER -> "string"

-----------------------------------------------------------------------------
(* Container state *)
EmptyEnv == [syms |-> Empty, vals |-> Empty, fns |-> Empty, globals |-> <<>>]
NewStateEnv(cfg, env) == [cfg |-> cfg, shared |-> Empty, bags |-> Empty, bag |-> Empty, pcache |-> Empty,
                          heap |-> Globals \o env.globals, cnt |-> Empty, env |-> env,
                          environ |-> Empty]          \* the process environment as far as the family's variables go (all unset)
NewState(cfg) == NewStateEnv(cfg, EmptyEnv)
(* what a reference text denotes: the family's own environment first, then the fixed tables *)
SymOf(st, x) == IF Has(st.env.syms, x) THEN st.env.syms[x] ELSE SymTable[x]
ValOf(st, x) == IF Has(st.env.vals, x) THEN st.env.vals[x] ELSE ValueTable[x]
FnOf(st, x)  == IF Has(st.env.fns, x) THEN st.env.fns[x] ELSE FnTable[x]

Alloc(st, body) == [st EXCEPT !.heap = Append(@, body)]
NewId(st) == Len(st.heap) + 1
Bump(st, key) == [st EXCEPT !.cnt = Upd(@, key, (IF Has(@, key) THEN @[key] ELSE 0) + 1)]

(* string casts of the documented kinds (exporter.CastToString) *)
CastStr(v) == CASE v.k = "nil" -> "nil" [] v.k = "lit" -> v.v [] OTHER -> "?"
Castable(v) == v.k \in {"nil", "lit"}

TagPrio(cfg, s, t) ==
  LET tg == Eff(cfg.services[s]).tags
      i == CHOOSE j \in 1..Len(tg) : tg[j].n = t /\ \A j2 \in 1..Len(tg) : tg[j2].n = t => j2 <= j
  IN tg[i].prio                      \* the last entry wins (map assignment in the runtime)
TaggedOrder(cfg, t) ==
  LET S == {s \in SvcNames(cfg) : t \in SvcTags(cfg.services[s])}
  IN SortSeq(SetToSeq(S), LAMBDA a, b : TagPrio(cfg, a, t) > TagPrio(cfg, b, t)
                                         \/ (TagPrio(cfg, a, t) = TagPrio(cfg, b, t) /\ NameLt(a, b)))

RECURSIVE GetSvc(_, _), ResolveArg(_, _), ResolveArgs(_, _, _, _), GetTaggedFrom(_, _, _, _),
          GetParamV(_, _), EvalChunks(_, _, _, _), SetFields(_, _, _, _, _), RunCalls(_, _, _, _, _),
          Decorate(_, _, _, _, _)

(* -- parameters ------------------------------------------------------------------------ *)
EvalChunk(st, c) ==
  CASE c.k = "text" -> Ok(VStr(c.v), st)
    [] c.k = "pct"  -> Ok(VStr("%"), st)
    [] c.k = "ref"  -> GetParamV(st, c.v)
    [] c.k = "fn"   ->
         LET f == FnOf(st, c.v)  st1 == Bump(st, "fn:" \o f.made) IN
         CASE f.kind = "str"  -> Ok(VStr(f.made \o "(" \o c.a \o ")"), st1)
           [] f.kind = "int"  -> Ok(VLit("int", "40"), st1)
           [] f.kind = "err"  -> IF c.a = "\"fail\"" THEN Err("fn:" \o c.v, st1) ELSE Ok(VStr(f.made \o "(" \o c.a \o ")"), st1)
           \* the environment is read when the chunk is evaluated, not before (docs/META.md)
           [] f.kind = "envdefault"    ->
                LET a == EnvArgTable[c.a] IN
                IF Has(st.environ, a.var) THEN Ok(VStr(st.environ[a.var]), st)
                ELSE IF a.hasdef THEN Ok(VStr(a.def), st) ELSE Err("env:" \o a.var, st)
           [] f.kind = "envintdefault" ->
                LET a == EnvArgTable[c.a] IN
                IF Has(st.environ, a.var)
                THEN (IF st.environ[a.var] \in EnvDecimal THEN Ok(VLit("int", st.environ[a.var]), st) ELSE Err("envint:" \o a.var, st))
                ELSE IF a.hasdef THEN Ok(VLit("int", a.def), st) ELSE Err("env:" \o a.var, st)
           [] f.kind = "todo" -> Err(IF c.a = "" THEN "parameter todo" ELSE "todo:" \o c.a, st)

EvalChunks(st, ch, i, acc) ==
  IF i > Len(ch) THEN Ok(VStr(acc), st)
  ELSE LET r == EvalChunk(st, ch[i]) IN
       IF ~r.ok THEN r
       ELSE IF ~Castable(r.v) THEN Err("cast", r.st)
       ELSE EvalChunks(r.st, ch, i + 1, acc \o CastStr(r.v))

(* a single chunk keeps the value's type, several chunks are concatenated string casts *)
EvalPattern(st, ch) == IF Len(ch) = 1 THEN EvalChunk(st, ch[1]) ELSE EvalChunks(st, ch, 1, "")

GetParamV(st, p) ==
  IF ~Has(st.cfg.params, p) THEN Err("param does not exist", st)
  ELSE IF Has(st.pcache, p) THEN Ok(st.pcache[p], st)
  ELSE LET r == ResolveArg(st, st.cfg.params[p]) IN
       IF r.ok THEN Ok(r.v, [r.st EXCEPT !.pcache = Upd(@, p, r.v)]) ELSE r     \* cached on success only

(* -- arguments ------------------------------------------------------------------------- *)
ResolveValue(st, expr) ==
  LET e == ValOf(st, expr) IN
  CASE e.kind = "global" -> Ok(VObj(e.id), st)
    [] e.kind = "newptr" -> Ok(VObj(NewId(st)), Alloc(st, Body("", <<>>)))
    [] e.kind = "newval" -> Ok(VObjVal(Body("", <<>>)), st)
    [] e.kind = "deref"  -> Ok(VObjVal(st.heap[e.id]), st)          \* *Var: a copy of what the package-level pointer refers to

ResolveArg(st, a) ==
  CASE a.k \in {"int", "uint64", "float", "bool"} -> Ok(VLit(GoType(a.k), a.v), st)
    [] a.k = "null"   -> Ok(VNil, st)
    [] a.k = "str"    -> Ok(VStr(a.v), st)
    [] a.k = "svc"    -> GetSvc(st, a.v)
    [] a.k = "tagged" -> GetTaggedFrom(st, TaggedOrder(st.cfg, a.v), 1, <<>>)
    [] a.k = "value"  -> ResolveValue(st, a.v)
    [] a.k = "self"   -> Ok(VContainer, st)
    [] a.k = "pat"    -> EvalPattern(st, a.ch)

(* all arguments are resolved even when one fails (resolveDeps); the first error is kept *)
ResolveArgs(st, args, i, acc) ==
  IF i > Len(args) THEN acc
  ELSE LET r == ResolveArg(st, args[i]) IN
       ResolveArgs(r.st, args, i + 1,
                   [ok |-> acc.ok /\ r.ok, vals |-> Append(acc.vals, r.v),
                    err |-> IF acc.err = "" THEN r.err ELSE acc.err, st |-> r.st])
ArgsOfSeq(st, args) == ResolveArgs(st, args, 1, [ok |-> TRUE, vals |-> <<>>, err |-> "", st |-> st])

GetTaggedFrom(st, names, i, acc) ==
  IF i > Len(names) THEN Ok(VList(acc), st)
  ELSE LET r == GetSvc(st, names[i]) IN
       IF ~r.ok THEN r ELSE GetTaggedFrom(r.st, names, i + 1, Append(acc, r.v))

(* -- object mutation ------------------------------------------------------------------- *)
IsPtr(v) == v.k = "obj"
IsVal(v) == v.k = "objval"
BodyOf(st, v) == IF IsPtr(v) THEN st.heap[v.id] ELSE v.body
(* apply f to the body of v: in place for a pointer, on the copy for a value *)
WithBody(st, v, b) == IF IsPtr(v) THEN [v |-> v, st |-> [st EXCEPT !.heap[v.id] = b]]
                      ELSE [v |-> VObjVal(b), st |-> st]

SetFieldOf(b, n, x) == CASE n = "F1" -> [b EXCEPT !.F1 = x] [] n = "F2" -> [b EXCEPT !.F2 = x] [] n = "f3" -> [b EXCEPT !.f3 = x]

(* fields in name order; an error is recorded and the remaining fields are still set *)
SetFields(st, cur, fields, i, err) ==
  IF i > Len(fields) THEN [ok |-> err = "", v |-> cur, err |-> err, st |-> st]
  ELSE LET r == ResolveArg(st, fields[i].a) IN
       IF ~r.ok THEN SetFields(r.st, cur, fields, i + 1, IF err = "" THEN r.err ELSE err)
       ELSE IF ~(IsPtr(cur) \/ IsVal(cur)) \/ fields[i].n \notin {"F1", "F2", "f3"}
            THEN SetFields(r.st, cur, fields, i + 1, IF err = "" THEN "set field" ELSE err)
       ELSE LET w == WithBody(r.st, cur, SetFieldOf(BodyOf(r.st, cur), fields[i].n, r.v)) IN
            SetFields(w.st, w.v, fields, i + 1, err)

Setters == {"SetX", "SetY", "SetE"}
Withers == {"WithX", "WithY", "WithV"}

(* calls in declared order; a wither's result replaces the object; a failing call is     *)
(* recorded and the following calls still run, a failing wither stops the sequence       *)
RunCalls(st, cur, calls, i, err) ==
  IF i > Len(calls) THEN [ok |-> err = "", v |-> cur, err |-> err, st |-> st]
  ELSE LET c == calls[i]  a == ArgsOfSeq(st, c.args) IN
       IF ~a.ok THEN RunCalls(a.st, cur, calls, i + 1, IF err = "" THEN a.err ELSE err)
       ELSE IF ~(IsPtr(cur) \/ IsVal(cur)) THEN RunCalls(a.st, cur, calls, i + 1, IF err = "" THEN "call on nil" ELSE err)
       ELSE IF c.w THEN
            IF c.m \in {"WithX", "WithY"} /\ IsPtr(cur) THEN
                 LET id == NewId(a.st)
                     st2 == Alloc(a.st, [Body("wither." \o c.m, a.vals) EXCEPT !.prev = cur]) IN
                 RunCalls(st2, VObj(id), calls, i + 1, err)
            ELSE IF c.m = "WithV" THEN
                 RunCalls(a.st, VObjVal([Body("wither.WithV", a.vals) EXCEPT !.prev = VObjVal(BodyOf(a.st, cur))]), calls, i + 1, err)
            ELSE [ok |-> FALSE, v |-> cur, err |-> IF err = "" THEN "wither" ELSE err, st |-> a.st]
       ELSE IF c.m = "SetE" /\ Len(a.vals) > 0 /\ IsFail(a.vals[1])
            THEN RunCalls(a.st, cur, calls, i + 1, err)        \* what a plain call returns (even an error) is discarded by the runtime
       ELSE IF c.m \in Setters THEN
            LET b == BodyOf(a.st, cur)
                w == WithBody(a.st, cur, [b EXCEPT !.log = Append(@, [m |-> c.m, args |-> a.vals])]) IN
            RunCalls(w.st, w.v, calls, i + 1, err)
       ELSE RunCalls(a.st, cur, calls, i + 1, IF err = "" THEN "no method" ELSE err)

(* every decorator whose tag the service carries, in declaration order; its result       *)
(* replaces the service; payload = <tag, service name, current object>                   *)
Decorate(st, s, cur, i, tags) ==
  IF i > Len(st.cfg.decorators) THEN Ok(cur, st)
  ELSE LET d == st.cfg.decorators[i] IN
       IF d.tag \notin tags THEN Decorate(st, s, cur, i + 1, tags)
       ELSE LET a == ArgsOfSeq(st, d.args) IN
            IF ~a.ok THEN Err(a.err, a.st)
            ELSE LET id == NewId(a.st)
                     b == [Body(SymOf(a.st, d.fn).made, a.vals) EXCEPT !.payload = <<[tag |-> d.tag, id |-> s, svc |-> cur]>>]
                 IN Decorate(Alloc(a.st, b), s, VObj(id), i + 1, tags)

(* -- services -------------------------------------------------------------------------- *)
Create(st, svc) ==
  IF IsSet(svc.ctor) THEN
       LET a == ArgsOfSeq(st, svc.args)  sym == SymOf(st, svc.ctor) IN
       IF ~a.ok THEN Err(a.err, a.st)
       ELSE IF sym.kind = "err" /\ Len(a.vals) > 0 /\ IsFail(a.vals[1]) THEN Err("NewE fails", a.st)
       ELSE IF sym.kind = "val" THEN Ok(VObjVal(Body(sym.made, a.vals)), a.st)
       ELSE Ok(VObj(NewId(a.st)), Alloc(a.st, Body(sym.made, a.vals)))
  ELSE IF IsSet(svc.value) THEN ResolveValue(st, svc.value)
  ELSE IF TypeTable[svc.type] = "nilptr" THEN Ok(VNilPtr, st) ELSE Ok(VObjVal(Body("", <<>>)), st)

GetSvc(st, s) ==
  IF ~Has(st.cfg.services, s) THEN Err("service does not exist", st)
  ELSE
  LET svc == st.cfg.services[s]
      sc  == EffScope(st.cfg, s) IN
  IF sc = "shared" /\ Has(st.shared, s) THEN Ok(st.shared[s], st)
  ELSE IF sc = "contextual" /\ Has(st.bag, s) THEN Ok(st.bag[s], st)
  ELSE IF IsTodo(svc) THEN Err("service todo", st)
  ELSE
  LET c == Create(st, svc) IN
  IF ~c.ok THEN c ELSE
  LET f == SetFields(c.st, c.v, SortedFields(svc), 1, "") IN
  IF ~f.ok THEN Err(f.err, f.st) ELSE
  LET m == RunCalls(f.st, f.v, svc.calls, 1, "") IN
  IF ~m.ok THEN Err(m.err, m.st) ELSE
  LET d == Decorate(m.st, s, m.v, 1, SvcTags(svc)) IN
  IF ~d.ok THEN d ELSE
  CASE sc = "shared"     -> Ok(d.v, [d.st EXCEPT !.shared = Upd(@, s, d.v)])
    [] sc = "contextual" -> Ok(d.v, [d.st EXCEPT !.bag = Upd(@, s, d.v)])
    [] OTHER             -> d

-----------------------------------------------------------------------------
(* Public operations.  An operation is a record [op, id, ctx, ...]; Apply returns the     *)
(* observable result and the next container state.                                        *)
FreshBag(st) == [st EXCEPT !.bag = Empty]
InCtx(st, c) == [st EXCEPT !.bag = IF Has(st.bags, c) THEN st.bags[c] ELSE Empty]
StoreCtx(r, c) == [r EXCEPT !.st = [r.st EXCEPT !.bags = Upd(@, c, r.st.bag), !.bag = Empty]]
DropBag(r) == [r EXCEPT !.st = [r.st EXCEPT !.bag = Empty]]

OpGet(s)               == [op |-> "Get", id |-> s, ctx |-> 0]
OpGetInContext(c, s)   == [op |-> "GetInContext", id |-> s, ctx |-> c]
OpGetTaggedBy(t)       == [op |-> "GetTaggedBy", id |-> t, ctx |-> 0]
OpGetTaggedByIn(c, t)  == [op |-> "GetTaggedByInContext", id |-> t, ctx |-> c]
OpGetParam(p)          == [op |-> "GetParam", id |-> p, ctx |-> 0]
OpOverrideParam(p, kind, v)  == [op |-> "OverrideParam", id |-> p, ctx |-> 0, kind |-> kind, v |-> v]
OpOverrideService(s, ctor, args) == [op |-> "OverrideService", id |-> s, ctx |-> 0, ctor |-> ctor, args |-> args]
OpSetEnv(var, val)     == [op |-> "SetEnv", id |-> var, ctx |-> 0, v |-> val]
OpUnsetEnv(var)        == [op |-> "UnsetEnv", id |-> var, ctx |-> 0]
OpIsTaggedBy(s, t)     == [op |-> "IsTaggedBy", id |-> s, ctx |-> 0, tag |-> t]
OpCircularDeps         == [op |-> "CircularDeps", id |-> "", ctx |-> 0]

(* generated getters: G() is Get(name of the service declaring getter G) converted to its type *)
GetterOwner(cfg, g) == CHOOSE s \in SvcNames(cfg) : ~IsTodo(cfg.services[s]) /\ cfg.services[s].getter = g
OpGetter(g)            == [op |-> "Getter", id |-> g, ctx |-> 0]
OpGetterIn(c, g)       == [op |-> "GetterInContext", id |-> g, ctx |-> c]
OpMustGetter(g)        == [op |-> "MustGetter", id |-> g, ctx |-> 0]
OpMustGetterIn(c, g)   == [op |-> "MustGetterInContext", id |-> g, ctx |-> c]

Apply(st, o) ==
  CASE o.op = "Get"          -> DropBag(GetSvc(FreshBag(st), o.id))
    [] o.op \in {"Getter", "MustGetter"} -> DropBag(GetSvc(FreshBag(st), GetterOwner(st.cfg, o.id)))
    [] o.op \in {"GetterInContext", "MustGetterInContext"} -> StoreCtx(GetSvc(InCtx(st, o.ctx), GetterOwner(st.cfg, o.id)), o.ctx)
    [] o.op = "GetInContext" -> StoreCtx(GetSvc(InCtx(st, o.ctx), o.id), o.ctx)
    [] o.op = "GetTaggedBy"  -> DropBag(GetTaggedFrom(FreshBag(st), TaggedOrder(st.cfg, o.id), 1, <<>>))
    [] o.op = "GetTaggedByInContext" -> StoreCtx(GetTaggedFrom(InCtx(st, o.ctx), TaggedOrder(st.cfg, o.id), 1, <<>>), o.ctx)
    [] o.op = "GetParam"     -> GetParamV(st, o.id)
    \* pure queries: the tag table of the (possibly overridden) configuration; an accepted configuration has no cycle (C07),
    \* so the runtime's own cycle detector has nothing to report
    [] o.op = "IsTaggedBy"   -> Ok(VLit("bool", IF o.id \in SvcNames(st.cfg) /\ o.tag \in SvcTags(st.cfg.services[o.id]) THEN "true" ELSE "false"), st)
    [] o.op = "CircularDeps" -> Ok(VNil, st)
    \* the program changes its environment between two uses of the container
    [] o.op = "SetEnv"       -> Ok(VNil, [st EXCEPT !.environ = Upd(@, o.id, o.v)])
    [] o.op = "UnsetEnv"     -> Ok(VNil, [st EXCEPT !.environ = Del(@, o.id)])
    [] o.op = "OverrideParam" ->
         Ok(VNil, [st EXCEPT !.cfg.params = Upd(@, o.id, IF o.kind = "string" THEN AStr(o.v) ELSE ALit(o.kind, o.v)),
                             !.pcache = Del(@, o.id)])
    [] o.op = "OverrideService" ->
         Ok(VNil, [st EXCEPT !.cfg.services = Upd(@, o.id, CtorSvc(o.ctor, o.args)),
                             !.shared = Del(@, o.id)])
=============================================================================
