-------------------------- MODULE MC_ContainerConc --------------------------
(* Small instances of ContainerConc, all interleavings.                                    *)
EXTENDS ContainerConc
CONSTANT Scenario

MSvc == {"A", "B", "C"}
MPar == {"P"}
(* A shared, needs parameter P;  B contextual, needs A;  C non_shared, needs B and A       *)
MScope == [s \in MSvc |-> CASE s = "A" -> "shared" [] s = "B" -> "contextual" [] OTHER -> "non_shared"]
MDepsAcyclic == [x \in MSvc \cup MPar |->
                   CASE x = "A" -> <<<<"par", "P">>>> [] x = "B" -> <<<<"svc", "A">>>>
                     [] x = "C" -> <<<<"svc", "B">>, <<"svc", "A">>>> [] OTHER -> <<>>]
(* a parameter cycle that slipped through: P needs itself (generated parameters are opaque  *)
(* providers, the runtime cannot see the cycle)                                            *)
MDepsCyclic == [MDepsAcyclic EXCEPT !["P"] = <<<<"par", "P">>>>]
MDeps == IF Scenario = "cyclic" THEN MDepsCyclic ELSE MDepsAcyclic

Get(s) == [op |-> "Get", id |-> s, ctx |-> 0]
GetIn(c, s) == [op |-> "GetInContext", id |-> s, ctx |-> c]
GetParam(p) == [op |-> "GetParam", id |-> p, ctx |-> 0]

MG == IF Scenario = "three" THEN {1, 2, 3} ELSE {1, 2}
MOps ==
  CASE Scenario = "two"    -> (1 :> <<GetIn(1, "C"), Get("A")>> @@ 2 :> <<GetIn(2, "C"), GetIn(1, "B")>>)
    [] Scenario = "three"  -> (1 :> <<GetIn(1, "B")>> @@ 2 :> <<GetIn(1, "B"), GetParam("P")>> @@ 3 :> <<Get("C")>>)
    [] Scenario = "params" -> (1 :> <<GetParam("P"), Get("A")>> @@ 2 :> <<Get("A"), GetParam("P")>>)
    [] Scenario = "cyclic" -> (1 :> <<GetParam("P")>> @@ 2 :> <<Get("B")>>)
=============================================================================
