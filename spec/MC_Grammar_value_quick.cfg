CONSTANTS
 Position = "value"
 Alphabet = {"L", "D", "PT", "US", "SL", "QT", "ST", "AM", "LB", "RB"}
 MaxLen = 4
INIT Init
NEXT Next
INVARIANT Emit
