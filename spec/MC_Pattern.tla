----------------------------- MODULE MC_Pattern -----------------------------
(* Every symbol string up to MaxLen over Alphabet, grown one symbol at a time (the scanner *)
(* is re-run from the start: strings are short).  Each state is printed with the verdict   *)
(* and chunk structure Pattern.tla demands and replayed on the real tool.                  *)
EXTENDS Pattern, Json
CONSTANTS Alphabet, MaxLen, MinPct,     \* strings longer than MaxLen - 1 must contain at least MinPct '%'
          Wrap                          \* "none", or "fncall": every string is wrapped as the arguments of a call  %a( ... )%
VARIABLE str

Prefix == IF Wrap = "fncall" THEN <<"PCT", "L", "LP">> ELSE <<>>
Suffix == IF Wrap = "fncall" THEN <<"RP", "PCT">> ELSE <<>>
Full == Prefix \o str \o Suffix
Init == str = <<>>
Next == /\ Len(str) < MaxLen
        /\ \E c \in Alphabet : str' = Append(str, c)
Worth == Len(str) < MaxLen \/ PctCount(str) >= MinPct
Emit == Worth => PrintT(<<"ST", ToJson([s |-> Full, verdict |-> Verdict(Full),
                                        chunks |-> IF Verdict(Full) = "reject" THEN <<>> ELSE Describe(Full)])>>)
InvDoubling == DoublingEscapes(Full)
InvOdd == OddRejected(Full)
InvTiling == Tiling(Full)

(* the env / envInt decision table, printed once *)
EnvTable == {[fn |-> f, state |-> s, def |-> d, outcome |-> EnvOutcome(f, s, d)] : f \in {"env", "envInt"}, s \in EnvStates, d \in BOOLEAN}
EmitEnv == str = <<>> => PrintT(<<"ST", ToJson([env |-> EnvTable])>>)
=============================================================================
