------------------------------ MODULE MC_Deps ------------------------------
(* Exhaustive families of small configurations for the output-validation rules           *)
(* (C05 verdict, C06, C07, C16).  Every initial state is one configuration + flag set;   *)
(* the always-true invariant Emit prints it with the verdict the specification demands,  *)
(* and the harness replays it on the real tool.  R1 invariants are checked on the way.   *)
EXTENDS Deps, Json

CONSTANT Family
VARIABLES cfg, flags, stage, sd
vars == <<cfg, flags, stage, sd>>

Scopes == {Unset, "shared", "contextual", "non_shared"}
NoFlags == [ignoreP |-> FALSE, ignoreS |-> FALSE]
AllFlags == [ignoreP : BOOLEAN, ignoreS : BOOLEAN]

SortedSeq(S) == SortSeq(SetToSeq(S), NameLt)
ArgsOf(svcs, tags, pars) ==
     [i \in 1..Cardinality(svcs) |-> ASvc(SortedSeq(svcs)[i])]
  \o [i \in 1..Cardinality(tags) |-> ATagged(SortedSeq(tags)[i])]
  \o [i \in 1..Cardinality(pars) |-> ARef(SortedSeq(pars)[i])]
TagsOf(tags) == [i \in 1..Cardinality(tags) |-> Tag(SortedSeq(tags)[i], 0)]

Svc(svcs, reqTags, pars, carry, scope) ==
  [CtorSvc("NewA", ArgsOf(svcs, reqTags, pars)) EXCEPT !.scope = scope, !.tags = TagsOf(carry)]

ParamOf(refs) ==       \* 0 refs: a literal; 1 ref: "%q%"; more: "%q%-%r%"
  IF refs = {} THEN ALit("int", "7")
  ELSE IF Cardinality(refs) = 1 THEN ARef(CHOOSE q \in refs : TRUE)
  ELSE APat([i \in 1..(2 * Cardinality(refs)) |->                    \* references in DESCENDING name order: "%p10%-%p1%-"
              IF i % 2 = 1 THEN CRef(SortedSeq(refs)[Cardinality(refs) + 1 - ((i + 1) \div 2)]) ELSE CText("-")])

-----------------------------------------------------------------------------
(* A: n services, every set of @-edges (self loops included), every scope assignment.    *)
FamA(S, sc) ==
  {[EmptyCfg EXCEPT !.services = [s \in S |-> Svc(refs[s], {}, {}, {}, sc[s])]] :
      refs \in [S -> SUBSET S]}

(* T: as A on 2 services, each service optionally a todo placeholder (which keeps its     *)
(*    declared scope but loses its arguments).                                           *)
FamT(sc) ==
  {[EmptyCfg EXCEPT !.services = [s \in {"s1", "s2"} |->
        [Svc(refs[s], {}, {}, {}, sc[s]) EXCEPT !.todo = IF td[s] THEN "true" ELSE Unset]]] :
      refs \in [{"s1", "s2"} -> SUBSET {"s1", "s2"}], td \in [{"s1", "s2"} -> BOOLEAN]}

(* B: 2 services, 1 tag, 1 decorator on that tag: carry / request / @-edges / decorator  *)
(*    arguments (@s1, @s2, !tagged t1), every scope assignment.                          *)
S2 == {"s1", "s2"}
FamB(sc, tg) ==
  {[EmptyCfg EXCEPT
      !.services = [s \in S2 |-> Svc(refs[s], IF req[s] THEN {tg} ELSE {}, {},
                                     IF carry[s] THEN {tg} ELSE {}, sc[s])],
      !.decorators = <<Dec(tg, "Decorate", ArgsOf(dsv, IF dtag THEN {tg} ELSE {}, {}))>>] :
      refs \in [S2 -> SUBSET S2], req \in [S2 -> BOOLEAN], carry \in [S2 -> BOOLEAN],
      dsv \in SUBSET S2, dtag \in BOOLEAN}

(* Bn: as B without scopes, the tag is NAMED LIKE A SERVICE ("s1"): name spaces must not  *)
(*     interfere.  Seeded by the @-edges.                                               *)
NoScope(S) == [s \in S |-> Unset]
FamBn(refs0) == {c \in FamB(NoScope(S2), "s1") :
                   \A s \in S2 : SvcSvcRefs(c.services[s]) = refs0[s]}

(* D: 2 services, 1 tag (named like service "s2"), TWO decorators on it, each with any   *)
(*    subset of {@s1, @s2, !tagged} as arguments; no scopes.  Seeded by the @-edges.     *)
FamD(refs) ==
  {[EmptyCfg EXCEPT
      !.services = [s \in S2 |-> Svc(refs[s], IF req[s] THEN {"s2"} ELSE {}, {},
                                     IF carry[s] THEN {"s2"} ELSE {}, Unset)],
      !.decorators = <<Dec("s2", "Decorate", ArgsOf(d1, IF dt1 THEN {"s2"} ELSE {}, {})),
                       Dec("s2", "DecorateB", ArgsOf(d2, IF dt2 THEN {"s2"} ELSE {}, {}))>>] :
      req \in [S2 -> BOOLEAN], carry \in [S2 -> BOOLEAN],
      d1 \in SUBSET S2, d2 \in SUBSET S2, dt1 \in BOOLEAN, dt2 \in BOOLEAN}

(* P: 3 parameters, every digraph of references, plus a service using p1.                *)
P3 == {"p1", "p10", "p2"}          \* p1 is a substring of p10
FamP(sp) ==
  {[EmptyCfg EXCEPT !.params = [p \in P3 |-> ParamOf(refs[p])],
                    !.services = [s \in {"s1"} |-> Svc({}, {}, sp, {}, Unset)]] :
      refs \in [P3 -> SUBSET P3]}

(* C: 3 services in a fixed order s1 > s2 > s3 (edges only downwards), one tag with      *)
(*    carry/request bits, every scope assignment: scope through tags without cycles.     *)
S3 == {"s1", "s2", "s3"}
Down(s) == CASE s = "s1" -> {"s2", "s3"} [] s = "s2" -> {"s3"} [] OTHER -> {}
FamC(sc) ==
  {[EmptyCfg EXCEPT
      !.services = [s \in S3 |-> Svc(refs[s], IF req[s] THEN {"t1"} ELSE {}, {},
                                     IF carry[s] THEN {"t1"} ELSE {}, sc[s])]] :
      refs \in {f \in [S3 -> SUBSET S3] : \A s \in S3 : f[s] \subseteq Down(s)},
      req \in [S3 -> BOOLEAN], carry \in [S3 -> BOOLEAN]}

(* (Families take a dummy argument so that TLC does not evaluate them as constants at    *)
(* start-up.)                                                                            *)
(* M: dangling references in every position, for parameters and services, with todo      *)
(*    declarations; each of the 8 reference sites independently points at a declared,    *)
(*    a todo or an undeclared name; crossed with the four flag sets.                     *)
Tgt == {"ok", "todo", "missing"}
PName(t) == CASE t = "ok" -> "p1" [] t = "todo" -> "p2" [] OTHER -> "s2"   \* undeclared parameter named like a service
SName(t) == CASE t = "ok" -> "s2" [] t = "todo" -> "s3" [] OTHER -> "p1"   \* undeclared service named like a parameter
FamMx(w12, maxBad) ==
  {[EmptyCfg EXCEPT
      !.params = [p \in {"p1", "p2", "p3", "p4"} |->
                    CASE p = "p1" -> ALit("int", "5")
                      [] p = "p2" -> APat(<<CFn("todo", "")>>)
                      [] p = "p3" -> ARef(PName(w[1]))                                  \* single chunk
                      \* after %% and a literal that reads like a name, multi: "a%%zz%p1%b" refers to p1 and not to zz; the literal is
                      \* an undeclared name when the reference is fine and a declared one when it dangles (C06-r7-m1 paired the
                      \* delimiters with a regular expression over the raw text instead of using the chunker's tokens)
                      [] OTHER   -> APat(<<CText("a"), CPct, CText(IF w[2] = "ok" THEN "zz" ELSE "p1"), CRef(PName(w[2])), CText("b")>>)],
      !.services = [s \in {"s1", "s2", "s3"} |->
                    CASE s = "s1" ->
                          \* a service given by a value has no constructor arguments; its calls and fields are checked all the same
                          [(IF val /\ w[3] = "ok" /\ w[4] = "ok" /\ dd = "none" THEN [EmptySvc EXCEPT !.value = "Var"] ELSE CtorSvc("NewA", <<ARef(PName(w[3])), ASvc(SName(w[4]))>>)) EXCEPT
                             !.calls = <<Call("SetX", <<APat(<<CText("x"), CRef(PName(w[5]))>>), ASvc(SName(w[6]))>>, FALSE)>>,
                             !.fields = <<Field("F1", ARef(PName(w[7]))), Field("F2", ASvc(SName(w[8])))>>]
                      [] s = "s2" -> CtorSvc("NewB", <<>>)
                      [] OTHER   -> [CtorSvc("NewZ", <<ARef("p9"), ASvc("s9"), ASvc("s1")>>) EXCEPT !.todo = "true",
                                       !.fields = <<Field("F1", ASvc("s8"))>>]],       \* a todo service keeps a draft body: inert
      !.decorators = IF dd = "none" THEN <<>>
                     ELSE <<Dec("t1", "Decorate", <<ARef(PName(dd)), ASvc(SName(dd))>>)>>] :
      w \in {f \in [1..8 -> Tgt] : /\ f[1] = w12[1] /\ f[2] = w12[2]
                                    /\ Cardinality({i \in 1..8 : f[i] # "ok"}) <= maxBad}, dd \in {"none"} \cup Tgt,
      val \in BOOLEAN}


(* K: every argument POSITION of one service (constructor argument, first and second argument of a call that is followed   *)
(*    by another call, the argument of that call, a field) holds a literal, @s1 or @s2; s2 may refer back.                  *)
KArg(x) == CASE x = "lit" -> ALit("int", "1") [] OTHER -> ASvc(x)
FamK(back) ==
  {[EmptyCfg EXCEPT !.services =
      (   "s1" :> [CtorSvc("NewA", <<KArg(w[1])>>) EXCEPT
                     !.calls = <<Call("SetX", <<KArg(w[2]), KArg(w[3])>>, FALSE), Call("SetY", <<KArg(w[4])>>, FALSE)>>,
                     !.fields = <<Field("F1", KArg(w[5]))>>]
       @@ "s2" :> CtorSvc("NewB", IF back THEN <<ASvc("s1")>> ELSE <<>>))] :
      w \in [1..5 -> {"lit", "s1", "s2"}]}
  \cup
  \* the same positions on a service given by a value (no constructor, hence no constructor argument): its calls and fields
  \* are injected all the same
  {[EmptyCfg EXCEPT !.services =
      (   "s1" :> [EmptySvc EXCEPT !.value = "Var",
                     !.calls = <<Call("SetX", <<KArg(w[2]), KArg(w[3])>>, FALSE), Call("SetY", <<KArg(w[4])>>, FALSE)>>,
                     !.fields = <<Field("F1", KArg(w[5]))>>]
       @@ "s2" :> CtorSvc("NewB", IF back THEN <<ASvc("s1")>> ELSE <<>>))] :
      w \in {f \in [1..5 -> {"lit", "s1", "s2"}] : f[1] = "lit"}}

(* N: which names are DECLARED varies, down to no parameters / a single service at all.  *)
FamN(D) ==
  {[EmptyCfg EXCEPT
      !.params = [p \in D |-> ALit("int", "1")],
      !.services = [s \in {"s1"} \cup (IF has2 THEN {"s2"} ELSE {}) |->
                      IF s = "s1" THEN Svc(sv, {}, pr, {"t1"}, Unset) ELSE Svc({}, {}, {}, {}, Unset)],
      !.decorators = IF dec THEN <<Dec("t1", "Decorate", ArgsOf(dsv, {}, dpr))>> ELSE <<>>] :
      has2 \in BOOLEAN, sv \in SUBSET {"s2", "s3"}, pr \in SUBSET {"p1", "p2"},
      dec \in BOOLEAN, dsv \in SUBSET {"s2"}, dpr \in SUBSET {"p1"}}

(* X: every subset of the defect classes {scope, cycle, missing parameter, missing        *)
(*    service}, in one or two instances each, crossed with the four flag sets (C16).     *)
FamX(two) ==
  {[EmptyCfg EXCEPT
      !.params = [p \in {"p1", "p2"} |->
                    IF p = "p1" THEN ALit("int", "1")
                    ELSE IF dp /\ two THEN ARef("p8") ELSE ALit("int", "2")],
      !.services = [s \in {"s1", "s2", "s3", "s4"} |->
          CASE s = "s1" -> [Svc({"s2"} \cup (IF ds THEN {"s9"} ELSE {}), {}, IF dp THEN {"p9"} ELSE {"p1"}, {"t1"},
                                IF dsc THEN "shared" ELSE Unset) EXCEPT !.getter = "GetS1"]
            [] s = "s2" -> Svc({}, {}, {}, {}, IF dsc THEN "contextual" ELSE Unset)
            [] s = "s3" -> Svc(IF dcy THEN {"s3"} ELSE {}, {}, {}, {}, IF dsc /\ two THEN "shared" ELSE Unset)
            [] OTHER   -> Svc((IF dcy /\ two THEN {"s4"} ELSE {}) \cup (IF dsc /\ two THEN {"s2"} ELSE {}), {}, {}, {},
                              IF dsc /\ two THEN "shared" ELSE Unset)],
      !.decorators = <<Dec("t1", "Decorate", ArgsOf(IF ds /\ two THEN {"s8"} ELSE {}, {}, {"p1"}))>>] :
      dsc \in BOOLEAN, dcy \in BOOLEAN, dp \in BOOLEAN, ds \in BOOLEAN}

(* Two stages so that TLC's workers share the enumeration: the initial states fix a seed  *)
(* (a scope assignment or a partial choice), one step completes it to a configuration.   *)
Seeds ==
  CASE Family = "A3" -> [S3 -> Scopes]
    [] Family = "A2" -> [S2 -> Scopes]
    [] Family = "B"  -> [S2 -> Scopes]
    [] Family = "T"  -> [S2 -> Scopes]
    [] Family = "Bn" -> [S2 -> SUBSET S2]
    [] Family = "D"  -> [S2 -> SUBSET S2]
    [] Family = "P"  -> {{}, {"p1"}}
    [] Family = "C"  -> [S3 -> Scopes]
    [] Family = "M"  -> [1..2 -> Tgt]
    [] Family = "Mq" -> [1..2 -> Tgt]
    [] Family = "N"  -> SUBSET {"p1", "p2"}
    [] Family = "K"  -> BOOLEAN
    [] Family = "X"  -> BOOLEAN

Configs(seed) ==
  CASE Family = "A3" -> FamA(S3, seed)
    [] Family = "A2" -> FamA(S2, seed)
    [] Family = "B"  -> FamB(seed, "t1")
    [] Family = "T"  -> FamT(seed)
    [] Family = "Bn" -> FamBn(seed)
    [] Family = "D"  -> FamD(seed)
    [] Family = "P"  -> FamP(seed)
    [] Family = "C"  -> FamC(seed)
    [] Family = "M"  -> FamMx(seed, 8)
    [] Family = "Mq" -> FamMx(seed, 2)
    [] Family = "N"  -> FamN(seed)
    [] Family = "K"  -> FamK(seed)
    [] Family = "X"  -> FamX(seed)

FlagSets == IF Family \in {"M", "Mq", "N", "X"} THEN AllFlags ELSE {NoFlags}

ExtCases == IF Family = "ext" THEN ndJsonDeserialize("ext_cases.ndjson") ELSE <<>>

Init == IF Family = "ext"
        THEN \E i \in 1..Len(ExtCases) : \E fl \in (IF ExtCases[i].allflags THEN AllFlags ELSE {NoFlags}) :
                sd = i /\ stage = 1 /\ cfg = ExtCases[i].cfg /\ flags = fl
        ELSE sd \in Seeds /\ stage = 0 /\ cfg = EmptyCfg /\ flags = NoFlags
Next == /\ stage = 0
        /\ stage' = 1
        /\ cfg' \in Configs(sd)
        /\ flags' \in FlagSets
        /\ UNCHANGED sd

-----------------------------------------------------------------------------
SetToSeqS(S) == SetToSeq(S)
Expected ==
  LET d == OutputDiag(cfg, flags) IN
  [accept |-> OutputAccepted(cfg, flags),
   scope  |-> d.scope, cycle |-> d.cycle, missP |-> d.missP, missS |-> d.missS,
   edges  |-> Edges(cfg),
   eff    |-> [s \in SvcNames(cfg) |-> EffScope(cfg, s)]]

Emit == stage = 1 => PrintT(<<"ST", ToJson([cfg |-> cfg, flags |-> flags, exp |-> Expected])>>)

(* R1: the scope rule is sound for the derived scopes, not only for the declared ones:   *)
(* in a configuration without scope violations nothing effectively shared can reach      *)
(* anything effectively contextual (so a container-wide instance never holds an          *)
(* instance that belongs to one context).                                                *)
ScopeRuleSound ==
  ScopeViolations(cfg) = {} =>
    \A s \in SvcNames(cfg) : EffScope(cfg, s) = "shared" =>
        \A t \in SvcReach(cfg, s) : EffScope(cfg, t) # "contextual"

(* R1: the ignore flags only remove diagnostics of their own class.                      *)
FlagsOnlyNarrow ==
  LET d0 == OutputDiag(cfg, NoFlags)  d == OutputDiag(cfg, flags) IN
  /\ d.scope = d0.scope /\ d.cycle = d0.cycle
  /\ d.missP = (IF flags.ignoreP THEN {} ELSE d0.missP)
  /\ d.missS = (IF flags.ignoreS THEN {} ELSE d0.missS)
  /\ (OutputAccepted(cfg, NoFlags) => OutputAccepted(cfg, flags))

(* R1: accepted (no flags) => every reference resolves, so a Get can never reach an      *)
(* undeclared name.                                                                      *)
AcceptedMeansClosed ==
  OutputAccepted(cfg, NoFlags) =>
    /\ \A s \in SvcNames(cfg) : SvcSvcRefs(cfg.services[s]) \subseteq SvcNames(cfg)
                              /\ SvcParRefs(cfg.services[s]) \subseteq ParNames(cfg)
    /\ \A p \in ParNames(cfg) : ArgParRefs(cfg.params[p]) \subseteq ParNames(cfg)
=============================================================================
