---------------------------- MODULE MC_Container ----------------------------
(* Families of (configuration, history) for the run-time semantics.  TLC explores every   *)
(* history of operations of the family's alphabet up to the bound, applying Container's   *)
(* Apply; a state at the bound is printed with the results and the heap the specification *)
(* demands and replayed on the generated container linked with the real runtime library.  *)
EXTENDS Container, Merge, API, Imports, Json

CONSTANTS Family, MaxHist
VARIABLES cfg0, files0, st, hist, aux
vars == <<cfg0, files0, st, hist, aux>>

Fx == <<[n |-> "fx", v |-> "probe.test/fx"]>>
Fns == <<[n |-> "fn", v |-> "fx.Fn"], [n |-> "fnInt", v |-> "fx.FnInt"], [n |-> "fnE", v |-> "fx.FnE"]>>
BaseMeta == [EmptyMeta EXCEPT !.imports = Fx, !.functions = Fns]

-----------------------------------------------------------------------------
(* Family "build" (C02): one service s1 described by a choice vector; all vectors that    *)
(* differ from the default in at most two dimensions (pairwise coverage around the base). *)
Dims == <<"create", "a1", "a2", "fields", "calls", "scope", "deco", "getter">>
DimVals(d) ==
  CASE d = "create" -> <<"ctor", "ctorlocal", "ctorE", "ctorV", "valGlobal", "valNewPtr", "valNewVal", "typeVal", "typePtr", "todo">>
    [] d = "a1"     -> <<"none", "int", "uint64", "float", "bool", "null", "str", "svc", "tagged", "value", "self",
                         "pInt", "pStr", "pMulti", "pct", "fn", "fail", "pNull", "svcNS", "str7", "strtrue", "strnull", "valueDeref", "floatInt", "failMulti", "todoMulti">>
    [] d = "a2"     -> <<"none", "int", "str", "svc", "tagged", "pInt", "pMulti", "self", "svcNS", "str7", "bool", "strtrue", "null">>
    [] d = "fields" -> <<"none", "F1lit", "F1F2", "f3", "F2svcNS">>
    [] d = "calls"  -> <<"none", "set", "with", "setwith", "withset", "setE", "long", "setfail">>
    [] d = "scope"  -> <<Unset, "shared", "contextual", "non_shared">>
    [] d = "deco"   -> <<"none", "one", "two">>
    [] d = "getter" -> <<"none", "get">>
Default(d) == DimVals(d)[1]

ArgOf(x) ==
  CASE x = "int" -> <<ALit("int", "7")>> [] x = "uint64" -> <<ALit("uint64", "18446744073709551615")>>
    [] x = "float" -> <<ALit("float", "1.5")>> [] x = "bool" -> <<ALit("bool", "true")>> [] x = "null" -> <<ALit("null", "")>>
    [] x = "str" -> <<AStr(" plain text ")>> [] x = "str7" -> <<AStr("7")>> [] x = "strtrue" -> <<AStr("true")>> [] x = "strnull" -> <<AStr("<nil>")>> [] x = "svc" -> <<ASvc("s2")>> [] x = "svcNS" -> <<ASvc("s3")>>
    [] x = "tagged" -> <<ATagged("t2")>>
    [] x = "value" -> <<AValue("fx.Var")>> [] x = "valueDeref" -> <<AValue("*fx.Var")>> [] x = "floatInt" -> <<ALit("float", "2")>> [] x = "self" -> <<ASelf>>
    [] x = "pInt" -> <<ARef("p1")>> [] x = "pStr" -> <<ARef("p2")>> [] x = "pNull" -> <<ARef("p4")>>
    [] x = "pMulti" -> <<APat(<<CText(" a"), CRef("p1"), CPct, CRef("p3"), CText("z ")>>)>>
    [] x = "pct" -> <<APat(<<CPct>>)>> [] x = "fn" -> <<APat(<<CFn("fn", "\"a\", 5")>>)>>
    [] x = "fail" -> <<AStr("fail")>>
    \* a chunk in the middle of a pattern that cannot be evaluated: the construction fails, nothing is built from the text before it
    [] x = "failMulti" -> <<APat(<<CText("x-"), CRef("p1"), CFn("fnE", "\"fail\""), CText("-y")>>)>>
    [] x = "todoMulti" -> <<APat(<<CText("t_"), CFn("todo", ""), CRef("p2")>>)>>
    [] OTHER -> <<>>

IsValRecv(c) == c \in {"ctorV", "valNewVal", "typeVal"}
CallsOf(x, c) ==
  LET W == IF IsValRecv(c) THEN "WithV" ELSE "WithX" IN
  CASE x = "set"     -> <<Call("SetX", <<ALit("int", "1")>>, FALSE)>>
    [] x = "with"    -> <<Call(W, <<AStr("w")>>, TRUE)>>
    [] x = "setwith" -> <<Call("SetX", <<ASvc("s2")>>, FALSE), Call(W, <<ARef("p1")>>, TRUE)>>
    [] x = "withset" -> <<Call(W, <<>>, TRUE), Call("SetY", <<AStr("after")>>, FALSE)>>
    [] x = "setE"    -> <<Call("SetE", <<AStr("fine")>>, FALSE), Call("SetX", <<>>, FALSE)>>
    [] x = "setfail" -> <<Call("SetE", <<AStr("fail")>>, FALSE), Call("SetX", <<ASvc("s3")>>, FALSE)>>
    [] x = "long"    -> <<Call("SetX", <<ALit("int", "1")>>, FALSE), Call(W, <<ALit("int", "2")>>, TRUE),
                          Call("SetY", <<ALit("int", "3")>>, FALSE), Call(W, <<ALit("int", "4")>>, TRUE),
                          Call("SetX", <<ALit("int", "5")>>, FALSE)>>
    [] OTHER -> <<>>
FieldsOf(x) ==
  CASE x = "F1lit"   -> <<Field("F1", ALit("int", "9"))>>
    [] x = "F1F2"    -> <<Field("F2", ARef("p2")), Field("F1", ASvc("s2"))>>      \* declared out of name order
    [] x = "f3"      -> <<Field("f3", AStr("unexported"))>>
    [] x = "F2svcNS" -> <<Field("F2", ASvc("s3")), Field("F1", ASvc("s3"))>>
    [] OTHER -> <<>>

S1(v) ==
  LET c == v["create"]
      args == IF c \in {"ctor", "ctorlocal", "ctorE", "ctorV"} THEN ArgOf(v["a1"]) \o ArgOf(v["a2"]) ELSE <<>>
      base == CASE c = "ctor" -> CtorSvc("fx.NewA", args) [] c = "ctorlocal" -> CtorSvc("NewA", args)
                [] c = "ctorE" -> CtorSvc("fx.NewE", args) [] c = "ctorV" -> CtorSvc("fx.NewV", args)
                [] c = "valGlobal" -> [EmptySvc EXCEPT !.value = "fx.Var"]
                [] c = "valNewPtr" -> [EmptySvc EXCEPT !.value = "&fx.S{}"]
                [] c = "valNewVal" -> [EmptySvc EXCEPT !.value = "fx.S{}"]
                [] c = "typeVal"   -> [EmptySvc EXCEPT !.type = "fx.T"]
                [] c = "typePtr"   -> [EmptySvc EXCEPT !.type = "*fx.T"]
                [] c = "todo"      -> [CtorSvc("fx.NewA", <<>>) EXCEPT !.todo = "true"]
      typ == IF v["getter"] = "get" /\ ~IsSet(base.type)
             THEN (IF IsValRecv(c) THEN "fx.T" ELSE "*fx.T") ELSE base.type
  IN [base EXCEPT !.fields = FieldsOf(v["fields"]), !.calls = CallsOf(v["calls"], c), !.scope = v["scope"],
                  !.tags = IF v["deco"] = "none" THEN <<>> ELSE <<Tag("t1", 0)>>,
                  !.getter = IF v["getter"] = "get" THEN "GetS1" ELSE Unset, !.type = typ]

BuildCfg(v) ==
  [EmptyCfg EXCEPT
     !.meta = BaseMeta,
     !.params = ("p1" :> ALit("int", "5") @@ "p2" :> AStr("text") @@ "p3" :> ALit("bool", "false") @@ "p4" :> ALit("null", "")),
     !.services = ("s1" :> S1(v) @@ "s2" :> [CtorSvc("fx.NewB", <<>>) EXCEPT !.tags = <<Tag("t2", 0)>>]
                   @@ "s3" :> [CtorSvc("fx.NewC", <<ARef("p1")>>) EXCEPT !.scope = "non_shared", !.tags = <<Tag("t2", 3)>>]),
     !.decorators = CASE v["deco"] = "one" -> <<Dec("t1", "fx.Decorate", <<ARef("p2")>>)>>
                      [] v["deco"] = "two" -> <<Dec("t1", "fx.Decorate", <<ASvc("s2")>>), Dec("t1", "fx.DecorateB", <<>>)>>
                      [] OTHER -> <<>>]

DimSet == {Dims[i] : i \in 1..Len(Dims)}
ValSet(d) == {DimVals(d)[i] : i \in 1..Len(DimVals(d))}
DefaultVec == [d \in DimSet |-> Default(d)]
(* all vectors differing from the default in at most two dimensions *)
PairVectors(zz) ==
  UNION {UNION {{[DefaultVec EXCEPT ![d1] = x1, ![d2] = x2] : x1 \in ValSet(d1), x2 \in ValSet(d2)} : d2 \in DimSet} : d1 \in DimSet}
LegalVec(v) == \A d \in DimSet : v[d] \in ValSet(d)
(* combinations whose outcome the properties do not determine are left out *)
Determined(v) ==
  /\ ~(v["create"] \in {"typePtr"} /\ (v["fields"] # "none" \/ v["calls"] # "none"))     \* operating on a nil pointer
  /\ ~(v["create"] = "valGlobal" /\ (v["fields"] # "none" \/ v["calls"] # "none"))       \* would mutate a package-level variable
  /\ ~(IsValRecv(v["create"]) /\ v["calls"] \in {"setE", "setfail"})
  /\ ~(v["create"] = "todo" /\ v["getter"] = "get")                                      \* attributes of todo services are exempt

BuildScript == <<OpGet("s1"), OpGetInContext(1, "s1"), OpGet("s1"), OpGetInContext(1, "s1"), OpGetInContext(2, "s1"), OpGetTaggedBy("t2"),
                 OpIsTaggedBy("s1", "t2"), OpIsTaggedBy("s2", "t2"), OpIsTaggedBy("s9", "t2"), OpCircularDeps>>

-----------------------------------------------------------------------------
(* Family "scope2"/"scope3" (C05 run time): accepted graphs of 2/3 services with every   *)
(* scope assignment, all histories over Get / GetInContext (two contexts).               *)
ScopeCfg(S, refs, sc) ==
  [EmptyCfg EXCEPT !.meta = BaseMeta,
     !.services = [s \in S |-> [CtorSvc(IF s = "s1" THEN "fx.NewA" ELSE IF s = "s2" THEN "fx.NewB" ELSE "fx.NewC",
                                        [i \in 1..Cardinality(refs[s]) |-> ASvc(SortSeq(SetToSeq(refs[s]), NameLt)[i])])
                                EXCEPT !.scope = sc[s], !.tags = IF s = "s2" THEN <<Tag("t1", 0)>> ELSE <<>>]]]
ScopeCfgs(S) == {c \in {ScopeCfg(S, refs, sc) : refs \in [S -> SUBSET S], sc \in [S -> {Unset, "shared", "contextual", "non_shared"}]} :
                   OutputAccepted(c, [ignoreP |-> FALSE, ignoreS |-> FALSE])}
ScopeOps(S) == {OpGet(s) : s \in S} \cup {OpGetInContext(c, s) : c \in {1, 2}, s \in S} \cup {OpGetTaggedBy("t1")}
(* "scopeg": the same graphs, s1 reached through its generated getters (the typed getter of a service resolves its     *)
(* contextual dependencies in the context it was given, like GetInContext)                                           *)
(* ... and with s1 reaching s2 only through the tag s2 carries (`!tagged t1` instead of `@s2`): the derived scope follows tags too *)
ViaTag(c) == [c EXCEPT !.services["s1"].args = [i \in 1..Len(@) |-> IF @[i] = ASvc("s2") THEN ATagged("t1") ELSE @[i]]]
WithGetterS1(c) == [c EXCEPT !.services["s1"].getter = "GetS1", !.services["s1"].type = "*fx.T"]
ScopeCfgsG(S) == {WithGetterS1(c) : c \in ScopeCfgs(S)}
                 \cup {WithGetterS1(x) : x \in {y \in {ViaTag(c) : c \in ScopeCfgs(S)} : OutputAccepted(y, [ignoreP |-> FALSE, ignoreS |-> FALSE])}}
ScopeOpsG == {OpGetter("GetS1"), OpGetterIn(1, "GetS1"), OpGetterIn(2, "GetS1"), OpGetInContext(1, "s2"), OpGetInContext(2, "s2"),
              OpGetInContext(1, "s1"), OpGet("s1")}
(* "scope2m": every service re-opened by a later file that adds a tag and says nothing about the scope (Merge.tla:  *)
(* an attribute the later file does not mention is kept)                                                             *)
ReopenAll(c) == [EmptyCfg EXCEPT !.services = [s \in DOMAIN c.services |-> [EmptySvc EXCEPT !.tags = <<Tag("t9", 0)>>]]]

-----------------------------------------------------------------------------
(* Family "tags" (C04): three tagged services with every assignment of priorities (ties,  *)
(* negative, large), a consumer of both tags, decorator sequences that exercise           *)
(* declaration order, and the configuration split over one to three files (tags and       *)
(* decorators are appended in file order).                                                *)
Absent == 999999
(* TLC's integers are 32 bit: 1000001 < 1000002 < 1000003 stand for MaxInt32 and two different priorities far above it,   *)
(* -1000001 for one far below -2^31; the concretiser writes the real values (the order is preserved)                     *)
TagPrios == {Absent, -5, 0, 7, 1000001, 1000002, 1000003, -1000001}
TagPriosQ(s) == CASE s = "s1" -> {Absent, 0, 1000002} [] s = "s2" -> {Absent, 0, 1000003} [] OTHER -> {Absent, 7, 1000002}
PrioAssignments(zz) == IF Family = "tagsq" THEN {f \in [{"s1", "s2", "s3"} -> TagPrios] : \A s \in {"s1", "s2", "s3"} : f[s] \in TagPriosQ(s)}
                   ELSE [{"s1", "s2", "s3"} -> TagPrios]
TagCfg(pr, t2, decs) ==
  [EmptyCfg EXCEPT !.meta = BaseMeta, !.params = ("p1" :> ALit("int", "5")),
     !.services =
       [s \in {"s1", "s2", "s3"} |->
          [CtorSvc(IF s = "s1" THEN "fx.NewA" ELSE IF s = "s2" THEN "fx.NewB" ELSE "fx.NewC", <<>>) EXCEPT
             !.tags = (IF s \in t2 /\ s = "s3" THEN <<Tag("t2", 0)>> ELSE <<>>)       \* s3 lists t2 first, s2 lists it last
                   \o (IF pr[s] # Absent THEN <<Tag("t1", pr[s])>> ELSE <<>>)
                   \o (IF s \in t2 /\ s # "s3" THEN <<Tag("t2", 0)>> ELSE <<>>)]]
       \* s5: a tagged service given by nothing but a value
       @@ ("s4" :> CtorSvc("fx.NewD", <<>>) @@ "s5" :> [EmptySvc EXCEPT !.value = "&fx.S{}", !.tags = <<Tag("t2", 5)>>]
           @@ "c1" :> CtorSvc("fx.NewZ", <<ATagged("t1"), ATagged("t2")>>)),
     !.decorators = decs]
DecSeqs ==
  << <<>>,
     <<Dec("t1", "fx.Decorate", <<AStr("a")>>)>>,
     <<Dec("t1", "fx.Decorate", <<ASvc("s4")>>), Dec("t1", "fx.DecorateB", <<ARef("p1")>>)>>,
     <<Dec("t1", "fx.Decorate", <<AStr("a")>>), Dec("t2", "fx.DecorateB", <<AStr("b")>>), Dec("t1", "fx.DecorateC", <<AStr("c")>>)>>,
     <<Dec("t2", "fx.Decorate", <<AStr("z")>>), Dec("t1", "fx.Decorate", <<AStr("a")>>), Dec("t2", "fx.Decorate", <<AStr("y")>>)>>,
     <<Dec("t1", "fx.Decorate", <<AStr("a")>>), Dec("t1", "fx.Decorate", <<ARef("p1")>>)>>,
     <<Dec("t2", "fx.Decorate", <<ATagged("t1")>>)>>,
     <<Dec("t1", "fx.Decorate", <<ALit("int", "1"), ASvc("s4"), ASelf>>)>>,
     \* arguments that print alike and differ in type, within one decorator and across decorators
     <<Dec("t1", "fx.Decorate", <<ALit("int", "7"), AStr("7")>>),
       Dec("t1", "fx.DecorateB", <<AStr("7"), ALit("bool", "true"), AStr("true"), ALit("float", "1.5"), AStr("1.5"), ALit("int", "7")>>)>>,
     \* more than ten decorators: declaration order is numeric, not the order of the printed indices
     [i \in 1..12 |-> Dec(IF i = 7 THEN "t2" ELSE "t1", IF i % 3 = 0 THEN "fx.DecorateB" ELSE "fx.Decorate", <<ALit("int", ToString(i))>>)] >>

(* ways of spreading a configuration over files *)
TagsTail(c) == [s \in {x \in DOMAIN c.services : Len(c.services[x].tags) >= 2} |->
                  [EmptySvc EXCEPT !.tags = Tail(c.services[s].tags)]]
TagsHead(c) == [s \in DOMAIN c.services |->
                  [c.services[s] EXCEPT !.tags = IF Len(@) >= 2 THEN <<Head(@)>> ELSE @]]
SplitFiles(c, k) ==
  LET n == Len(c.decorators)  h == (n + 1) \div 2 IN
  CASE k = 1 -> <<c>>
    [] k = 2 -> << [c EXCEPT !.decorators = SubSeq(c.decorators, 1, h), !.services = TagsHead(c)],
                   [EmptyCfg EXCEPT !.decorators = SubSeq(c.decorators, h + 1, n), !.services = TagsTail(c)] >>
    [] k = 3 -> << [c EXCEPT !.decorators = <<>>, !.services = TagsHead(c)],
                   [EmptyCfg EXCEPT !.decorators = SubSeq(c.decorators, 1, IF n >= 1 THEN 1 ELSE 0)],
                   [EmptyCfg EXCEPT !.decorators = SubSeq(c.decorators, 2, n), !.services = TagsTail(c)] >>

TagFileSets(zz) ==
  {SplitFiles(TagCfg(pr, t2, DecSeqs[d]), k) :
      pr \in PrioAssignments(0), t2 \in SUBSET {"s2", "s3"}, d \in 1..Len(DecSeqs), k \in 1..3}
TagScript == <<OpGetTaggedBy("t1"), OpGetTaggedBy("t2"), OpGet("c1"), OpGet("s1"), OpGetTaggedBy("t1"),
               OpIsTaggedBy("s1", "t1"), OpIsTaggedBy("s2", "t2"), OpIsTaggedBy("s3", "t2"), OpIsTaggedBy("c1", "t1"), OpIsTaggedBy("s1", "t3"), OpIsTaggedBy("s5", "t2"), OpCircularDeps>>

-----------------------------------------------------------------------------
(* Family "todo" (C15): every subset of {p1, p2, s1, s2} marked todo, all histories over   *)
(* GetParam / Get / OverrideParam / OverrideService.  p3 is a function parameter whose     *)
(* invocations are counted (lazy evaluation).                                             *)
TodoCfg(tp1, tp2, ts1, ts2) ==
  [EmptyCfg EXCEPT !.meta = BaseMeta,
     !.params = (   "p1" :> (IF tp1 THEN APat(<<CFn("todo", "")>>) ELSE ALit("int", "5"))
                 @@ "p2" :> (IF tp2 THEN APat(<<CFn("todo", "\"in development,now\"")>>) ELSE APat(<<CRef("p1"), CText("-x")>>))
                 @@ "p3" :> APat(<<CFn("fn", "\"a\"")>>)
                 @@ "p4" :> ARef("p1")),                           \* an alias: exactly one reference
     !.services = (   "s1" :> (IF ts1 THEN [EmptySvc EXCEPT !.todo = "true"]
                               ELSE CtorSvc("fx.NewA", <<ARef("p1"), ASvc("s2"), ARef("p3")>>))
                   @@ "s2" :> (CASE ts2 = "no"    -> CtorSvc("fx.NewB", <<ARef("p2")>>)
                                 [] ts2 = "bare"  -> [EmptySvc EXCEPT !.todo = "true"]
                                 [] ts2 = "typed" -> [EmptySvc EXCEPT !.todo = "true", !.type = "*fx.T"]     \* attributes of a todo service are inert
                                 [] ts2 = "ctor"  -> [CtorSvc("fx.NewB", <<ARef("p2")>>) EXCEPT !.todo = "true", !.scope = "non_shared"]))]
TodoCfgs(zz) == {TodoCfg(a, b, c, d) : a \in BOOLEAN, b \in BOOLEAN, c \in BOOLEAN, d \in {"no", "bare", "typed", "ctor"}}
TodoOps == {OpGetParam("p1"), OpGetParam("p2"), OpGetParam("p4"), OpGet("s1"), OpGet("s2"),
            OpOverrideParam("p1", "int", "9"), OpOverrideParam("p2", "string", "ov"),
            OpOverrideService("s2", "NewZ", <<ARef("p1")>>), OpOverrideService("s1", "NewD", <<ASvc("s2")>>)}

(* "todom": the same configurations with every service re-opened by a later file that adds a tag and does not repeat   *)
(* `todo` (an attribute the later file does not mention is kept): still placeholders                                     *)
TodoOpsM == {OpGetParam("p1"), OpGet("s1"), OpGet("s2"), OpOverrideService("s2", "NewZ", <<ARef("p1")>>), OpOverrideService("s1", "NewD", <<ASvc("s2")>>)}
(* Family "lazy" (C15): parameters backed by the environment are evaluated at first use with the environment of that   *)
(* moment, cached on success only; the program changes its environment between the uses                                  *)
LazyCfg(withDefaults) ==
  [EmptyCfg EXCEPT !.meta = BaseMeta,
     !.params = (   "e1" :> APat(<<CFn("env", IF withDefaults THEN "\"VERIF_E1\", \"dflt\"" ELSE "\"VERIF_E1\"")>>)
                 @@ "e2" :> APat(<<CFn("envInt", IF withDefaults THEN "\"VERIF_E2\", 77" ELSE "\"VERIF_E2\"")>>)
                 @@ "e3" :> APat(<<CRef("e1"), CText(":"), CRef("e2")>>)
                 @@ "e4" :> APat(<<CText("direct-"), CFn("env", "\"VERIF_E1\"")>>)),
     !.services = (   "s1" :> CtorSvc("fx.NewA", <<ARef("e1")>>)
                   @@ "s2" :> CtorSvc("fx.NewB", <<ARef("e3"), ASvc("s1"), APat(<<CFn("envInt", "\"VERIF_E2\"")>>)>>))]
LazyOps == {OpSetEnv("VERIF_E1", "a"), OpSetEnv("VERIF_E1", "b"), OpSetEnv("VERIF_E2", "8080"), OpSetEnv("VERIF_E2", "0x10"), OpUnsetEnv("VERIF_E1"),
            OpGetParam("e1"), OpGetParam("e2"), OpGetParam("e3"), OpGetParam("e4"), OpGet("s1"), OpGet("s2"), OpOverrideParam("e1", "string", "ov")}

-----------------------------------------------------------------------------
(* Family "api" (C13): getter x type form x must_getter x default_must_getter x meta names *)
(* x what the second service does (own getter, the same getter, todo with a getter).       *)
ApiGetters == IF Family = "apiq" THEN {Unset, "GetA", "MustGetA", "GetAInContext", "Get", "Container", "HotSwap", "_getEnv"}
              ELSE {Unset, "GetA", "MustGetA", "GetAInContext", "Container", "_getEnv", "_concatenateChunks", "_x"} \cup RuntimeAPI
ApiTypes   == IF Family = "apiq" THEN {Unset, "*fx.T", "fx.T", "fx.N", "*T"} ELSE {Unset, "*fx.T", "fx.T", "*\"probe.test/fx\".T", "*T", "\".\".T", "fx.N"}
Tri == {Unset, "true", "false"}
ApiCfg0(g, t, m, dm, named, second) ==
  LET byval == t \in {"fx.T", "\".\".T", "fx.N"} IN
  [EmptyCfg EXCEPT
     !.meta = [BaseMeta EXCEPT !.defmust = dm, !.pkg = IF "pkg" \in named THEN "mypkg" ELSE Unset,
                               !.ctype = IF "ctype" \in named THEN "MyContainer" ELSE Unset,
                               !.cctor = IF "cctor" \in named THEN "BuildIt" ELSE Unset],
     !.services = (   "s1" :> [CtorSvc(IF byval THEN "fx.NewV" ELSE "fx.NewA", <<>>) EXCEPT !.getter = g, !.type = t, !.must = m]
                   @@ "s2" :> (CASE second = "own"  -> [CtorSvc("fx.NewB", <<>>) EXCEPT !.getter = "GetB", !.type = "*fx.T", !.must = "true"]
                                 [] second = "same" -> [CtorSvc("fx.NewB", <<>>) EXCEPT !.getter = "GetA"]
                                 [] second = "todo" -> [EmptySvc EXCEPT !.todo = "true", !.getter = "GetA", !.must = "true"]
                                 [] second = "failing" -> [CtorSvc("fx.NewE", <<AStr("fail")>>) EXCEPT !.getter = "GetB", !.type = "*fx.T", !.must = "true"]
                                 [] second = "none" -> CtorSvc("fx.NewB", <<>>)))]
ApiCfgS(g, t, m, dm, named, second, sc1) == [ApiCfg0(g, t, m, dm, named, second) EXCEPT !.services["s1"].scope = sc1]
ApiCfg(g, t, m, dm, named, second) == ApiCfg0(g, t, m, dm, named, second)
(* getters spread over four services, every assignment of {none, GetA, GetB}: a duplicate must be found whichever pair of  *)
(* services carries it and whatever stands between the two in name order (C13-r7-m1: only neighbours were compared)       *)
ApiMulti(zz) ==
  {[EmptyCfg EXCEPT !.meta = BaseMeta,
      !.services = [s \in {"s1", "s2", "s3", "s4"} |->
                      [CtorSvc(IF s = "s1" THEN "fx.NewA" ELSE "fx.NewB", <<>>) EXCEPT !.getter = f[s]]]] :
     f \in [{"s1", "s2", "s3", "s4"} -> {Unset, "GetA", "GetB"}]}
ApiCfgs(zz) == {ApiCfg(g, t, m, dm, {}, sec) : g \in ApiGetters, t \in ApiTypes, m \in Tri, dm \in Tri,
                                          sec \in {"own", "same", "todo", "none", "failing"}}
           \cup {ApiCfg(g, "*fx.T", "true", Unset, n, "own") : g \in {Unset, "GetA"}, n \in SUBSET {"pkg", "ctype", "cctor"}}
           \cup {ApiCfgS("GetA", t, m, dm, {}, sec, sc) : t \in {"*fx.T", Unset}, m \in {"true", Unset}, dm \in {"true", Unset},
                                                       sec \in {"own", "none"}, sc \in {"contextual", "non_shared"}}
           \cup ApiMulti(0)
(* the getter attributes of one service spread over two files: the later file wins attribute by attribute (Merge.tla), an     *)
(* explicit false included; default_must_getter likewise                                                                    *)
ApiFileSets(zz) ==
  LET DM1 == IF Family = "apiq" THEN {Unset} ELSE Tri
      DM2 == IF Family = "apiq" THEN {Unset, "true"} ELSE Tri IN
  { << ApiCfg(g[1], "*fx.T", m1, dm1, {}, "none"),
       [EmptyCfg EXCEPT !.meta = [EmptyMeta EXCEPT !.defmust = dm2],
                        !.services = ("s1" :> [EmptySvc EXCEPT !.must = m2, !.getter = g[2]])] >> :
      g \in {<<"GetA", Unset>>, <<Unset, "GetA">>, <<"GetA", "GetB">>}, m1 \in Tri, m2 \in Tri, dm1 \in DM1, dm2 \in DM2 }
(* every generated method is exercised, then Get for identity *)
ApiScript(c) ==
  LET gs == SortSeq(SetToSeq({c.services[s].getter : s \in WithGetter(c)}), NameLt)
      MustOf(g) == MustEff(c, GetterOwner(c, g)) IN
  <<OpGet("s1"), OpGetInContext(1, "s1"), OpGetInContext(2, "s1")>> \o
  FlattenSeq([i \in 1..Len(gs) |->
                <<OpGetter(gs[i]), OpGetterIn(1, gs[i])>> \o
                (IF MustOf(gs[i]) THEN <<OpMustGetter(gs[i]), OpMustGetterIn(2, gs[i])>> ELSE <<>>)])
  \o <<OpGet("s2")>>

-----------------------------------------------------------------------------
(* Family "lits" (C01/C02/C03): every parameter literal type (non-finite floats included)  *)
(* as a parameter, referenced alone and inside a multi-chunk pattern, and as a direct       *)
(* constructor argument, field value and call argument.                                    *)
LitKindsAll == <<ALit("int", "-3"), ALit("uint64", "18446744073709551615"), ALit("float", "0.25"), ALit("float", "+Inf"),
                 ALit("float", "-Inf"), ALit("float", "NaN"), ALit("bool", "false"), ALit("null", ""), AStr("hello \"q\" \\ w"),
                 ALit("int", "9223372036854775807"), ALit("float", "1000000"), ALit("float", "2"), ALit("float", "-3"), AStr("two\nlines\twith a tab"), AStr("*/ // `")>>
LitCfg(i, multi) ==
  [EmptyCfg EXCEPT !.meta = BaseMeta,
     !.params = ("p1" :> LitKindsAll[i] @@ "p2" :> ARef("p1")
                 @@ "p3" :> (IF multi THEN APat(<<CText("<"), CRef("p1"), CText(">")>>) ELSE AStr("x"))),
     !.services = ("s1" :> [CtorSvc("fx.NewA", <<LitKindsAll[i], ARef("p1"), ARef("p3")>>) EXCEPT
                              !.fields = <<Field("F1", LitKindsAll[i])>>,
                              !.calls = <<Call("SetX", <<LitKindsAll[i], ARef("p2")>>, FALSE)>>])]
LitCfgs(zz) == {LitCfg(i, m) : i \in 1..Len(LitKindsAll), m \in BOOLEAN}
LitScript == <<OpGetParam("p1"), OpGetParam("p2"), OpGetParam("p3"), OpGet("s1")>>

-----------------------------------------------------------------------------
(* Family "forms" (C01): every documented syntax form of constructor, value and type,      *)
(* local / aliased / quoted / full path / ".", with a typed getter; with and without a      *)
(* parameters section; built-in functions used directly in service arguments.              *)
CtorForms  == {"NewA", "fx.NewA", "\"probe.test/fx\".NewA", "probe.test/fx.NewA", "\".\".NewA"}
ValueForms == {"Var", "fx.Var", "\".\".Var", "\"probe.test/fx\".Var", "probe.test/fx.Var", "\"probe.test/fx\".Holder.Field",
               "&S{}", "&fx.S{}", "&\"probe.test/fx\".S{}", "&\".\".S{}", "S{}", "fx.S{}", "\".\".S{}", "*fx.Var", "*Var"}
PtrTypes   == {Unset, "*T", "*fx.T", "*\"probe.test/fx\".T", "*\".\".T", "*probe.test/fx.T"}
ValTypes   == {Unset, "T", "fx.T", "\"probe.test/fx\".T", "\".\".T"}
IsValForm(x) == x \in {"S{}", "fx.S{}", "\".\".S{}", "*fx.Var", "*Var"}
BuiltinArgs == <<APat(<<CFn("env", "\"VERIF_UNSET\", \"dflt\"")>>), APat(<<CFn("envInt", "\"VERIF_UNSET\", 77")>>),
                 APat(<<CText("n="), CFn("envInt", "\"VERIF_UNSET\", 77"), CPct>>)>>
FormCfg(svc, withParams, builtin) ==
  [EmptyCfg EXCEPT !.meta = BaseMeta,
     !.params = IF withParams THEN ("p1" :> ALit("int", "5")) ELSE <<>>,
     !.services = ("s1" :> [svc EXCEPT !.getter = "GetS1"]
                   @@ "s2" :> CtorSvc("fx.NewB", IF builtin THEN BuiltinArgs ELSE <<>>))]
FormCfgs(zz) ==
     {FormCfg([CtorSvc(c, <<>>) EXCEPT !.type = t], wp, b) : c \in CtorForms, t \in PtrTypes, wp \in BOOLEAN, b \in BOOLEAN}
\cup {FormCfg([EmptySvc EXCEPT !.value = x, !.type = t], wp, TRUE) :
          x \in {y \in ValueForms : ~IsValForm(y)}, t \in PtrTypes, wp \in BOOLEAN}
\cup {FormCfg([EmptySvc EXCEPT !.value = x, !.type = t], TRUE, FALSE) : x \in {y \in ValueForms : IsValForm(y)}, t \in ValTypes}
\cup {FormCfg([EmptySvc EXCEPT !.type = t], FALSE, TRUE) : t \in (PtrTypes \cup ValTypes) \ {Unset}}
FormScript == <<OpGet("s1"), OpGetter("GetS1"), OpGet("s2")>>

-----------------------------------------------------------------------------
(* Family "imports" (C14): alias tables x reference forms.  The fixture universe offers    *)
(* identical self-identifying symbols at several import paths (prefix-related paths, equal *)
(* last elements, characters illegal in identifiers, a foreign module).                    *)
UniverseSeq == << <<"probe.test", "fx">>, <<"probe.test", "fy">>, <<"probe.test", "p">>, <<"probe.test", "pq">>,
                  <<"probe.test", "p", "q">>, <<"probe.test", "x", "p">>, <<"probe.test", "we-ird.v2">>,
                  <<"a.test", "p">>, <<"a.test", "p", "q">>, <<"ab.test", "p">>, <<"probe.test", "x", "p", "p">> >>
Universe == {UniverseSeq[i] : i \in 1..Len(UniverseSeq)}
UIndex(pkg) == CHOOSE i \in 1..Len(UniverseSeq) : UniverseSeq[i] = pkg
AliasEntry(n, segs) == [n |-> n, segs |-> segs]
AliasCandidates ==
  { AliasEntry("a", <<"probe.test", "p">>), AliasEntry("ab", <<"probe.test", "pq">>), AliasEntry("p", <<"probe.test", "x", "p">>),
    AliasEntry("probe.test", <<"a.test">>), AliasEntry("os", <<"probe.test", "fx">>), AliasEntry("fmt", <<"probe.test", "fy">>),
    AliasEntry("w", <<"probe.test", "we-ird.v2">>), AliasEntry("fx", <<"probe.test", "fx">>), AliasEntry("a.test", <<"probe.test", "p">>),
    AliasEntry("errors", <<"probe.test", "fy">>), AliasEntry("github.com", <<"probe.test", "fx">>), AliasEntry("st", <<"probe.test", "pq">>),
    AliasEntry("context", <<"probe.test", "p">>), AliasEntry("reflect", <<"probe.test", "fx">>),
    AliasEntry("zz", <<"probe.test", "p">>) }            \* a target whose first element is itself an alias ("probe.test") that sorts earlier
RefSegs == { <<"a">>, <<"ab">>, <<"a", "q">>, <<"p">>, <<"probe.test", "p">>, <<"probe.test", "pq">>, <<"probe.test", "p", "q">>,
             <<"probe.test", "x", "p">>, <<"os">>, <<"fmt">>, <<"w">>, <<"probe.test", "we-ird.v2">>, <<"fx">>, <<"a.test", "p">>,
             <<"ab.test", "p">>, <<"a.test", "q">>, <<"probe.test", "fx">>, <<"st">>, <<"p", "p">>, <<"zz">>, <<"zz", "q">> }
RefImports == {INone, IDot} \cup {IPath(sg, q) : sg \in RefSegs, q \in BOOLEAN}
AliasByName(n) == CHOOSE e \in AliasCandidates : e.n = n
PairNames == { <<"a", "ab">>, <<"ab", "a">>, <<"a", "a.test">>, <<"p", "probe.test">>, <<"os", "fmt">>, <<"fx", "os">>, <<"st", "a">>,
               <<"probe.test", "a.test">>, <<"github.com", "fx">>, <<"errors", "context">>, <<"reflect", "w">>,
               <<"probe.test", "zz">>, <<"zz", "probe.test">>, <<"probe.test", "st">>, <<"a", "zz">> }
QuickPairNames == { <<"probe.test", "zz">>, <<"zz", "probe.test">>, <<"a", "ab">> }
TableSeqs(k) == {<<>>} \cup {<<e>> : e \in AliasCandidates}
                \cup {<<AliasByName(pn[1]), AliasByName(pn[2])>> : pn \in (IF k >= 2 THEN PairNames ELSE QuickPairNames)}
Exists(tbl, i) == Resolve(tbl, i) \in Universe \cup {Cur}

TypeOnlyPkg == <<"probe.test", "fy">>
TypeOnlyRef == IPath(TypeOnlyPkg, FALSE)
ImportCfg(tbl, r1, r2, typed) ==
  [EmptyCfg EXCEPT
     !.meta = [EmptyMeta EXCEPT !.imports = [j \in 1..Len(tbl) |-> [n |-> tbl[j].n, v |-> PathText(tbl[j].segs)]],
                                !.functions = <<[n |-> "fn", v |-> RefText(r2, "Fn")]>>],
     !.params = ("p1" :> APat(<<CFn("fn", "")>>)),
     !.services = (   "s1" :> [CtorSvc(RefText(r1, "NewA"), <<AValue(RefText(r2, "Var")), ARef("p1")>>) EXCEPT
                                 !.getter = IF typed = "typed" THEN "GetS1" ELSE Unset,
                                 \* untyped: a --stub build uses no user package at all
                                 \* typeonly: a type without a getter is printed nowhere, its package must not be imported
                                 !.type = CASE typed = "typed" -> "*" \o RefText(r1, "T")
                                            [] typed = "typeonly" -> "*" \o RefText(TypeOnlyRef, "T")
                                            [] OTHER -> Unset]
                   @@ "s2" :> [EmptySvc EXCEPT !.value = RefText(r2, "Var"), !.tags = <<Tag("t1", 0)>>]
                   @@ "s3" :> [EmptySvc EXCEPT !.value = "&" \o RefText(r1, "S") \o "{}"]),
     !.decorators = <<Dec("t1", RefText(r1, "Decorate"), <<>>)>>]

GlobalIdOf(pkg) == IF pkg = Cur THEN 3 ELSE Len(Globals) + UIndex(pkg)
ImportEnv(tbl, r1, r2) ==
  LET p1 == Resolve(tbl, r1)  p2 == Resolve(tbl, r2) IN
  [syms |-> (RefText(r1, "NewA") :> [made |-> MadeOf(p1, "NewA"), kind |-> "ptr"]
             @@ RefText(r1, "Decorate") :> [made |-> MadeOf(p1, "Decorate"), kind |-> "dec"]),
   vals |-> (RefText(r2, "Var") :> [kind |-> "global", id |-> GlobalIdOf(p2)]
             @@ ("&" \o RefText(r1, "S") \o "{}") :> [kind |-> "newptr", id |-> 0]),
   fns  |-> ("fn" :> [made |-> MadeOf(p2, "Fn"), kind |-> "str"]),
   globals |-> [i \in 1..Len(UniverseSeq) |-> Body(MadeOf(UniverseSeq[i], "Var"), <<>>)]]
ImportAux(tbl, r1, r2) ==
  [used |-> {PathText(x) : x \in {Resolve(tbl, r1), Resolve(tbl, r2)} \ {Cur}},
   table |-> tbl, r1 |-> ImportText(r1), r2 |-> ImportText(r2)]
ImportTriples(zz) ==
  {t \in TableSeqs(IF Family \in {"importsq", "importsv"} THEN 1 ELSE 2) \X RefImports \X RefImports :
      /\ TableWellFormed(t[1]) /\ Exists(t[1], t[2]) /\ Exists(t[1], t[3])
      /\ (TRUE => t[3] \in {t[2], INone, IDot, IPath(<<"a", "q">>, FALSE), IPath(<<"probe.test", "fx">>, TRUE), IPath(<<"probe.test", "x", "p">>, FALSE), IPath(<<"ab.test", "p">>, TRUE)})}
ImportQuads(zz) == {<<t[1], t[2], t[3], "typed">> : t \in ImportTriples(0)}
               \cup {<<t[1], t[2], t[3], "untyped">> : t \in {x \in ImportTriples(0) : x[1] = <<>> /\ x[2].k = "path" /\ x[3].k = "path"}}
               \cup {<<t[1], t[2], t[3], "typeonly">> : t \in {x \in ImportTriples(0) : x[3] \in {x[2], INone} /\ Len(x[1]) <= 1
                                                                  /\ TypeOnlyPkg \notin {Resolve(x[1], x[2]), Resolve(x[1], x[3])}
                                                                  /\ Resolve(x[1], TypeOnlyRef) = TypeOnlyPkg}}
(* an earlier file that gives every alias of the table another target: the alias table is the MERGED one, in which the *)
(* later file wins key by key (Merge.tla MergeKV) - C14-r7-m1 merged meta.imports the other way round                    *)
ShadowFile(tbl) ==
  [EmptyCfg EXCEPT !.meta = [EmptyMeta EXCEPT !.imports =
     [j \in 1..Len(tbl) |-> [n |-> tbl[j].n,
                              v |-> PathText(IF tbl[j].segs = <<"probe.test", "fy">> THEN <<"probe.test", "fx">> ELSE <<"probe.test", "fy">>)]]]]
(* the target of an alias may be written quoted, like every import path (regex/consts.go: MetaImport = Import); it denotes *)
(* the same package                                                                                                       *)
QuoteTargets(cfg) ==
  [cfg EXCEPT !.meta.imports = [j \in 1..Len(cfg.meta.imports) |-> [n |-> cfg.meta.imports[j].n, v |-> "\"" \o cfg.meta.imports[j].v \o "\""]]]
ImportScript == <<OpGet("s1"), OpGet("s2"), OpGetParam("p1"), OpGet("s3")>> \o (IF IsSet(cfg0.services["s1"].getter) THEN <<OpGetter("GetS1")>> ELSE <<>>)

-----------------------------------------------------------------------------
(* Family "ext": larger random configurations and histories written by the harness         *)
(* (vlib/randcfg.py) to ext_cases.ndjson; the specification keeps the accepted ones and     *)
(* says what each history must return.                                                     *)
ExtCases == IF Family = "ext" THEN ndJsonDeserialize("ext_cases.ndjson") ELSE <<>>

-----------------------------------------------------------------------------
Configs ==
  CASE Family = "build"  -> {BuildCfg(v) : v \in {x \in PairVectors(0) : LegalVec(x) /\ Determined(x)}}
    [] Family = "scope2" -> ScopeCfgs({"s1", "s2"})
    [] Family = "scope3" -> ScopeCfgs({"s1", "s2", "s3"})
    [] Family = "scopeg" -> ScopeCfgsG({"s1", "s2"})
    [] Family = "todo"   -> TodoCfgs(0)
    [] Family = "lazy"   -> {LazyCfg(FALSE), LazyCfg(TRUE)}
    [] Family = "lits"   -> LitCfgs(0)
    [] Family = "forms"  -> FormCfgs(0)
    [] Family \in {"api", "apiq"} -> ApiCfgs(0)
    [] OTHER -> {}

NoFl == [ignoreP |-> FALSE, ignoreS |-> FALSE]
FileSets ==
  CASE Family \in {"tags", "tagsq"} -> {f \in TagFileSets(0) : OutputAccepted(MergeAll(f), NoFl)}
    [] Family \in {"api", "apiq"} -> {<<c>> : c \in Configs} \cup ApiFileSets(0)
    [] Family = "scope2m" -> {<<c, ReopenAll(c)>> : c \in ScopeCfgs({"s1", "s2"})}
    [] Family = "todom" -> {<<c, ReopenAll(c)>> : c \in {x \in TodoCfgs(0) : IsTodo(x.services["s1"]) \/ IsTodo(x.services["s2"])}}
    [] OTHER -> {<<c>> : c \in Configs}
IsImports == Family \in {"imports", "importsq", "importsv"}
(* the multi-file and quoted-target variants belong to C14 (importsv = importsq + variants; imports has them too); the quick  *)
(* tiers of C01 / C17 / C08 compile the plain importsq family                                                              *)
ImportVariants == Family \in {"imports", "importsv"}

Scripted == Family \in {"ext", "build", "tags", "tagsq", "api", "apiq", "lits", "forms", "imports", "importsq", "importsv"}
Script == IF Family = "ext" THEN ExtCases[aux.idx].ops
          ELSE IF Family = "build" THEN BuildScript
          ELSE IF Family \in {"api", "apiq"} THEN (IF APIAccepted(cfg0) THEN ApiScript(cfg0) ELSE <<>>)
          ELSE IF Family = "lits" THEN LitScript
          ELSE IF Family = "forms" THEN FormScript
          ELSE IF IsImports THEN ImportScript
          ELSE TagScript
Alphabet(c) ==
  CASE Family = "scope2" -> ScopeOps({"s1", "s2"})
    [] Family = "scope3" -> ScopeOps({"s1", "s2", "s3"})
    [] Family = "scope2m" -> ScopeOps({"s1", "s2"})
    [] Family = "scopeg" -> ScopeOpsG
    [] Family = "todo"   -> TodoOps
    [] Family = "todom"  -> TodoOpsM
    [] Family = "lazy"   -> LazyOps
    [] OTHER -> {}

Bound == IF Scripted THEN Len(Script) ELSE MaxHist

Init ==
  IF Family = "ext"
  THEN \E i \in 1..Len(ExtCases) :
          /\ OutputAccepted(ExtCases[i].cfg, NoFl)
          /\ files0 = <<ExtCases[i].cfg>> /\ cfg0 = ExtCases[i].cfg /\ st = NewState(ExtCases[i].cfg)
          /\ hist = <<>> /\ aux = [idx |-> i]
  ELSE IF IsImports
  THEN \E t \in ImportQuads(0), shadowed \in BOOLEAN, quoted \in BOOLEAN :
          /\ shadowed => (ImportVariants /\ Len(t[1]) >= 1 /\ t[4] = "typed")
          /\ quoted => (ImportVariants /\ Len(t[1]) >= 1 /\ t[4] = "typed" /\ t[2] = t[3] /\ ~shadowed)
          /\ files0 = (IF shadowed THEN <<ShadowFile(t[1])>> ELSE <<>>)
                       \o <<(IF quoted THEN QuoteTargets(ImportCfg(t[1], t[2], t[3], t[4])) ELSE ImportCfg(t[1], t[2], t[3], t[4]))>>
          /\ cfg0 = MergeAll(files0)
          /\ SameCfg(cfg0, files0[Len(files0)])       \* the later file's table is the effective one (Merge.tla)
          /\ st = NewStateEnv(ImportCfg(t[1], t[2], t[3], t[4]), ImportEnv(t[1], t[2], t[3]))
          /\ hist = <<>> /\ aux = ImportAux(t[1], t[2], t[3])
  ELSE \E f \in FileSets : files0 = f /\ cfg0 = MergeAll(f) /\ st = NewState(MergeAll(f)) /\ hist = <<>> /\ aux = <<>>

Do(o) == LET r == Apply(st, o) IN
         /\ st' = r.st
         /\ hist' = Append(hist, [op |-> o, ok |-> r.ok, v |-> r.v, err |-> r.err])
         /\ UNCHANGED <<cfg0, files0, aux>>

Next == /\ Len(hist) < Bound
        /\ IF Scripted THEN Do(Script[Len(hist) + 1]) ELSE \E o \in Alphabet(cfg0) : Do(o)

Emit == Len(hist) = Bound => PrintT(<<"ST", ToJson([cfg |-> cfg0, files |-> files0, aux |-> aux, eff |-> [s \in SvcNames(cfg0) |-> EffScope(cfg0, s)], api |-> (IF Family \in {"api", "apiq"} THEN [accept |-> APIAccepted(cfg0), violations |-> GetterViolations(cfg0), methods |-> GetterMethods(cfg0), names |-> Names(cfg0)] ELSE <<>>), hist |-> hist, heap |-> st.heap, cnt |-> st.cnt])>>)

-----------------------------------------------------------------------------
(* R1: design-level invariants of the run-time semantics.                                *)
(* the tagged collection is ordered by priority descending, then by name ascending, and    *)
(* contains exactly the services carrying the tag                                          *)
TaggedSorted ==
  \A t \in {"t1", "t2"} :
     LET o == TaggedOrder(cfg0, t) IN
     /\ {o[i] : i \in 1..Len(o)} = {s \in SvcNames(cfg0) : t \in SvcTags(cfg0.services[s])}
     /\ \A i \in 1..(Len(o) - 1) :
           \/ TagPrio(cfg0, o[i], t) > TagPrio(cfg0, o[i + 1], t)
           \/ (TagPrio(cfg0, o[i], t) = TagPrio(cfg0, o[i + 1], t) /\ NameLt(o[i], o[i + 1]))
(* spreading a configuration over files the documented way does not change what is merged  *)
SplitInvariant == \A k \in 1..3 : SameCfg(MergeAll(SplitFiles(cfg0, k)), cfg0)
(* C15: a todo parameter / service always fails until it is overridden; a parameter        *)
(* function is never invoked before its parameter (or a dependant) is first used           *)
TodoFails ==
  \A i \in 1..Len(hist) :
     LET o == hist[i].op
         overridden == \E j \in 1..(i - 1) : hist[j].op.id = o.id /\ hist[j].op.op \in {"OverrideParam", "OverrideService"} IN
     /\ (o.op = "Get" /\ IsTodo(cfg0.services[o.id]) /\ ~overridden) => ~hist[i].ok
     /\ (o.op = "GetParam" /\ cfg0.params[o.id].k = "pat" /\ cfg0.params[o.id].ch[1].k = "fn"
          /\ cfg0.params[o.id].ch[1].v = "todo" /\ ~overridden) => ~hist[i].ok
LazyParams == hist = <<>> => st.cnt = Empty /\ st.pcache = Empty
(* an evaluation that failed for want of a variable is not remembered: once the variable is set, the next use succeeds *)
NotCachedOnFailure ==
  \A i, j \in 1..Len(hist) :
     (i < j /\ hist[i].op = OpGetParam("e4") /\ ~hist[i].ok /\ hist[j].op = OpGetParam("e4")
      /\ (\E k \in (i + 1)..(j - 1) : hist[k].op.op = "SetEnv" /\ hist[k].op.id = "VERIF_E1")
      /\ ~(\E k \in (i + 1)..(j - 1) : hist[k].op.op = "UnsetEnv")) => hist[j].ok

(* a shared service has at most one instance for the life of the container               *)
ApiNoCollision == NoCollision(cfg0)
NoOverride == \A i \in 1..Len(hist) : hist[i].op.op # "OverrideService"
SharedOnce ==
  NoOverride => \A i, j \in 1..Len(hist) :
     (hist[i].op.op \in {"Get", "GetInContext"} /\ hist[j].op.op \in {"Get", "GetInContext"}
      /\ hist[i].op.id = hist[j].op.id /\ hist[i].ok /\ hist[j].ok
      /\ EffScope(cfg0, hist[i].op.id) = "shared" /\ hist[i].v.k = "obj" /\ hist[j].v.k = "obj")
     => hist[i].v.id = hist[j].v.id
(* contextual: the same instance within one context, never the same in two contexts or in *)
(* two plain Gets                                                                         *)
ContextIsolation ==
  \A i, j \in 1..Len(hist) :
     (i < j /\ hist[i].ok /\ hist[j].ok /\ hist[i].op.id = hist[j].op.id
      /\ hist[i].op.op \in {"Get", "GetInContext"} /\ hist[j].op.op \in {"Get", "GetInContext"}
      /\ EffScope(cfg0, hist[i].op.id) = "contextual" /\ hist[i].v.k = "obj" /\ hist[j].v.k = "obj"
      /\ hist[i].v.id > Len(Globals) /\ hist[j].v.id > Len(Globals))      \* package-level variables have one identity by nature
     => ((hist[i].v.id = hist[j].v.id) <=>
           (hist[i].op.op = "GetInContext" /\ hist[j].op.op = "GetInContext" /\ hist[i].op.ctx = hist[j].op.ctx))
(* nothing held by the container-wide cache reaches an object stored in a context bag     *)
RECURSIVE ReachObjs(_, _, _)
ValObjs(v) == IF v.k = "obj" THEN {v.id} ELSE IF v.k = "list" THEN UNION {IF v.items[i].k = "obj" THEN {v.items[i].id} ELSE {} : i \in 1..Len(v.items)} ELSE {}
BodyObjs(b) == UNION ({ValObjs(b.args[i]) : i \in 1..Len(b.args)} \cup {ValObjs(b.F1), ValObjs(b.F2), ValObjs(b.f3), ValObjs(b.prev)}
                      \cup {ValObjs(b.payload[i].svc) : i \in 1..Len(b.payload)}
                      \cup {UNION {ValObjs(b.log[i].args[j]) : j \in 1..Len(b.log[i].args)} : i \in 1..Len(b.log)})
ReachObjs(heap, frontier, seen) ==
  IF frontier = {} THEN seen
  ELSE LET nxt == (UNION {BodyObjs(heap[i]) : i \in frontier}) \ seen IN ReachObjs(heap, nxt, seen \cup nxt)
SharedNeverHoldsContextual ==
  LET sharedRoots == UNION {ValObjs(st.shared[s]) : s \in DOMAIN st.shared}
      bagObjs == UNION {UNION {ValObjs(st.bags[c][s]) : s \in DOMAIN st.bags[c]} : c \in DOMAIN st.bags}
  IN ReachObjs(st.heap, sharedRoots, sharedRoots) \cap bagObjs = {}
=============================================================================
