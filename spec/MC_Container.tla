---------------------------- MODULE MC_Container ----------------------------
(* Families of (configuration, history) for the run-time semantics.  TLC explores every   *)
(* history of operations of the family's alphabet up to the bound, applying Container's   *)
(* Apply; a state at the bound is printed with the results and the heap the specification *)
(* demands and replayed on the generated container linked with the real runtime library.  *)
EXTENDS Container, Json

CONSTANTS Family, MaxHist
VARIABLES cfg0, st, hist
vars == <<cfg0, st, hist>>

Fx == <<[n |-> "fx", v |-> "probe.test/fx"]>>
Fns == <<[n |-> "fn", v |-> "fx.Fn"], [n |-> "fnInt", v |-> "fx.FnInt"], [n |-> "fnE", v |-> "fx.FnE"]>>
BaseMeta == [EmptyMeta EXCEPT !.imports = Fx, !.functions = Fns]

-----------------------------------------------------------------------------
(* Family "build" (C02): one service s1 described by a choice vector; all vectors that    *)
(* differ from the default in at most two dimensions (pairwise coverage around the base). *)
Dims == <<"create", "a1", "a2", "fields", "calls", "scope", "deco", "getter">>
DimVals(d) ==
  CASE d = "create" -> <<"ctor", "ctorlocal", "ctorE", "ctorV", "valGlobal", "valNewPtr", "valNewVal", "typeVal", "typePtr", "todo">>
    [] d = "a1"     -> <<"none", "int", "uint64", "float", "bool", "null", "str", "svc", "tagged", "value", "self",
                         "pInt", "pStr", "pMulti", "pct", "fn", "fail", "pNull", "svcNS", "str7", "strtrue", "strnull">>
    [] d = "a2"     -> <<"none", "int", "str", "svc", "tagged", "pInt", "pMulti", "self", "svcNS", "str7", "bool", "strtrue", "null">>
    [] d = "fields" -> <<"none", "F1lit", "F1F2", "f3", "F2svcNS">>
    [] d = "calls"  -> <<"none", "set", "with", "setwith", "withset", "setE", "long", "setfail">>
    [] d = "scope"  -> <<Unset, "shared", "contextual", "non_shared">>
    [] d = "deco"   -> <<"none", "one", "two">>
    [] d = "getter" -> <<"none", "get">>
Default(d) == DimVals(d)[1]

ArgOf(x) ==
  CASE x = "int" -> <<ALit("int", "7")>> [] x = "uint64" -> <<ALit("uint64", "18446744073709551615")>>
    [] x = "float" -> <<ALit("float", "1.5")>> [] x = "bool" -> <<ALit("bool", "true")>> [] x = "null" -> <<ALit("null", "")>>
    [] x = "str" -> <<AStr(" plain text ")>> [] x = "str7" -> <<AStr("7")>> [] x = "strtrue" -> <<AStr("true")>> [] x = "strnull" -> <<AStr("<nil>")>> [] x = "svc" -> <<ASvc("s2")>> [] x = "svcNS" -> <<ASvc("s3")>>
    [] x = "tagged" -> <<ATagged("t2")>>
    [] x = "value" -> <<AValue("fx.Var")>> [] x = "self" -> <<ASelf>>
    [] x = "pInt" -> <<ARef("p1")>> [] x = "pStr" -> <<ARef("p2")>> [] x = "pNull" -> <<ARef("p4")>>
    [] x = "pMulti" -> <<APat(<<CText(" a"), CRef("p1"), CPct, CRef("p3"), CText("z ")>>)>>
    [] x = "pct" -> <<APat(<<CPct>>)>> [] x = "fn" -> <<APat(<<CFn("fn", "\"a\", 5")>>)>>
    [] x = "fail" -> <<AStr("fail")>>
    [] OTHER -> <<>>

IsValRecv(c) == c \in {"ctorV", "valNewVal", "typeVal"}
CallsOf(x, c) ==
  LET W == IF IsValRecv(c) THEN "WithV" ELSE "WithX" IN
  CASE x = "set"     -> <<Call("SetX", <<ALit("int", "1")>>, FALSE)>>
    [] x = "with"    -> <<Call(W, <<AStr("w")>>, TRUE)>>
    [] x = "setwith" -> <<Call("SetX", <<ASvc("s2")>>, FALSE), Call(W, <<ARef("p1")>>, TRUE)>>
    [] x = "withset" -> <<Call(W, <<>>, TRUE), Call("SetY", <<AStr("after")>>, FALSE)>>
    [] x = "setE"    -> <<Call("SetE", <<AStr("fine")>>, FALSE), Call("SetX", <<>>, FALSE)>>
    [] x = "setfail" -> <<Call("SetE", <<AStr("fail")>>, FALSE), Call("SetX", <<ASvc("s3")>>, FALSE)>>
    [] x = "long"    -> <<Call("SetX", <<ALit("int", "1")>>, FALSE), Call(W, <<ALit("int", "2")>>, TRUE),
                          Call("SetY", <<ALit("int", "3")>>, FALSE), Call(W, <<ALit("int", "4")>>, TRUE),
                          Call("SetX", <<ALit("int", "5")>>, FALSE)>>
    [] OTHER -> <<>>
FieldsOf(x) ==
  CASE x = "F1lit"   -> <<Field("F1", ALit("int", "9"))>>
    [] x = "F1F2"    -> <<Field("F2", ARef("p2")), Field("F1", ASvc("s2"))>>      \* declared out of name order
    [] x = "f3"      -> <<Field("f3", AStr("unexported"))>>
    [] x = "F2svcNS" -> <<Field("F2", ASvc("s3")), Field("F1", ASvc("s3"))>>
    [] OTHER -> <<>>

S1(v) ==
  LET c == v["create"]
      args == IF c \in {"ctor", "ctorlocal", "ctorE", "ctorV"} THEN ArgOf(v["a1"]) \o ArgOf(v["a2"]) ELSE <<>>
      base == CASE c = "ctor" -> CtorSvc("fx.NewA", args) [] c = "ctorlocal" -> CtorSvc("NewA", args)
                [] c = "ctorE" -> CtorSvc("fx.NewE", args) [] c = "ctorV" -> CtorSvc("fx.NewV", args)
                [] c = "valGlobal" -> [EmptySvc EXCEPT !.value = "fx.Var"]
                [] c = "valNewPtr" -> [EmptySvc EXCEPT !.value = "&fx.S{}"]
                [] c = "valNewVal" -> [EmptySvc EXCEPT !.value = "fx.S{}"]
                [] c = "typeVal"   -> [EmptySvc EXCEPT !.type = "fx.T"]
                [] c = "typePtr"   -> [EmptySvc EXCEPT !.type = "*fx.T"]
                [] c = "todo"      -> [CtorSvc("fx.NewA", <<>>) EXCEPT !.todo = "true"]
      typ == IF v["getter"] = "get" /\ ~IsSet(base.type)
             THEN (IF IsValRecv(c) THEN "fx.T" ELSE "*fx.T") ELSE base.type
  IN [base EXCEPT !.fields = FieldsOf(v["fields"]), !.calls = CallsOf(v["calls"], c), !.scope = v["scope"],
                  !.tags = IF v["deco"] = "none" THEN <<>> ELSE <<Tag("t1", 0)>>,
                  !.getter = IF v["getter"] = "get" THEN "GetS1" ELSE Unset, !.type = typ]

BuildCfg(v) ==
  [EmptyCfg EXCEPT
     !.meta = BaseMeta,
     !.params = ("p1" :> ALit("int", "5") @@ "p2" :> AStr("text") @@ "p3" :> ALit("bool", "false") @@ "p4" :> ALit("null", "")),
     !.services = ("s1" :> S1(v) @@ "s2" :> [CtorSvc("fx.NewB", <<>>) EXCEPT !.tags = <<Tag("t2", 0)>>]
                   @@ "s3" :> [CtorSvc("fx.NewC", <<ARef("p1")>>) EXCEPT !.scope = "non_shared", !.tags = <<Tag("t2", 3)>>]),
     !.decorators = CASE v["deco"] = "one" -> <<Dec("t1", "fx.Decorate", <<ARef("p2")>>)>>
                      [] v["deco"] = "two" -> <<Dec("t1", "fx.Decorate", <<ASvc("s2")>>), Dec("t1", "fx.DecorateB", <<>>)>>
                      [] OTHER -> <<>>]

DimSet == {Dims[i] : i \in 1..Len(Dims)}
ValSet(d) == {DimVals(d)[i] : i \in 1..Len(DimVals(d))}
DefaultVec == [d \in DimSet |-> Default(d)]
(* all vectors differing from the default in at most two dimensions *)
PairVectors ==
  UNION {UNION {{[DefaultVec EXCEPT ![d1] = x1, ![d2] = x2] : x1 \in ValSet(d1), x2 \in ValSet(d2)} : d2 \in DimSet} : d1 \in DimSet}
LegalVec(v) == \A d \in DimSet : v[d] \in ValSet(d)
(* combinations whose outcome the properties do not determine are left out *)
Determined(v) ==
  /\ ~(v["create"] \in {"typePtr"} /\ (v["fields"] # "none" \/ v["calls"] # "none"))     \* operating on a nil pointer
  /\ ~(v["create"] = "valGlobal" /\ (v["fields"] # "none" \/ v["calls"] # "none"))       \* would mutate a package-level variable
  /\ ~(IsValRecv(v["create"]) /\ v["calls"] \in {"setE", "setfail"})
  /\ ~(v["create"] = "todo" /\ v["getter"] = "get")                                      \* attributes of todo services are exempt

BuildScript == <<OpGet("s1"), OpGetInContext(1, "s1"), OpGet("s1"), OpGetInContext(1, "s1"), OpGetInContext(2, "s1"), OpGetTaggedBy("t2")>>

-----------------------------------------------------------------------------
(* Family "scope2"/"scope3" (C05 run time): accepted graphs of 2/3 services with every   *)
(* scope assignment, all histories over Get / GetInContext (two contexts).               *)
ScopeCfg(S, refs, sc) ==
  [EmptyCfg EXCEPT !.meta = BaseMeta,
     !.services = [s \in S |-> [CtorSvc(IF s = "s1" THEN "fx.NewA" ELSE IF s = "s2" THEN "fx.NewB" ELSE "fx.NewC",
                                        [i \in 1..Cardinality(refs[s]) |-> ASvc(SortSeq(SetToSeq(refs[s]), NameLt)[i])])
                                EXCEPT !.scope = sc[s], !.tags = IF s = "s2" THEN <<Tag("t1", 0)>> ELSE <<>>]]]
ScopeCfgs(S) == {c \in {ScopeCfg(S, refs, sc) : refs \in [S -> SUBSET S], sc \in [S -> {Unset, "shared", "contextual", "non_shared"}]} :
                   OutputAccepted(c, [ignoreP |-> FALSE, ignoreS |-> FALSE])}
ScopeOps(S) == {OpGet(s) : s \in S} \cup {OpGetInContext(c, s) : c \in {1, 2}, s \in S} \cup {OpGetTaggedBy("t1")}

-----------------------------------------------------------------------------
Configs ==
  CASE Family = "build"  -> {BuildCfg(v) : v \in {x \in PairVectors : LegalVec(x) /\ Determined(x)}}
    [] Family = "scope2" -> ScopeCfgs({"s1", "s2"})
    [] Family = "scope3" -> ScopeCfgs({"s1", "s2", "s3"})

Scripted == Family \in {"build"}
Script == BuildScript
Alphabet(c) ==
  CASE Family = "scope2" -> ScopeOps({"s1", "s2"})
    [] Family = "scope3" -> ScopeOps({"s1", "s2", "s3"})
    [] OTHER -> {}

Bound == IF Scripted THEN Len(Script) ELSE MaxHist

Init == \E c \in Configs : cfg0 = c /\ st = NewState(c) /\ hist = <<>>

Do(o) == LET r == Apply(st, o) IN
         /\ st' = r.st
         /\ hist' = Append(hist, [op |-> o, ok |-> r.ok, v |-> r.v, err |-> r.err])
         /\ UNCHANGED cfg0

Next == /\ Len(hist) < Bound
        /\ IF Scripted THEN Do(Script[Len(hist) + 1]) ELSE \E o \in Alphabet(cfg0) : Do(o)

Emit == Len(hist) = Bound => PrintT(<<"ST", ToJson([cfg |-> cfg0, hist |-> hist, heap |-> st.heap, cnt |-> st.cnt])>>)

-----------------------------------------------------------------------------
(* R1: design-level invariants of the run-time semantics.                                *)
(* a shared service has at most one instance for the life of the container               *)
SharedOnce ==
  \A i, j \in 1..Len(hist) :
     (hist[i].op.op \in {"Get", "GetInContext"} /\ hist[j].op.op \in {"Get", "GetInContext"}
      /\ hist[i].op.id = hist[j].op.id /\ hist[i].ok /\ hist[j].ok
      /\ EffScope(cfg0, hist[i].op.id) = "shared" /\ hist[i].v.k = "obj" /\ hist[j].v.k = "obj")
     => hist[i].v.id = hist[j].v.id
(* contextual: the same instance within one context, never the same in two contexts or in *)
(* two plain Gets                                                                         *)
ContextIsolation ==
  \A i, j \in 1..Len(hist) :
     (i < j /\ hist[i].ok /\ hist[j].ok /\ hist[i].op.id = hist[j].op.id
      /\ hist[i].op.op \in {"Get", "GetInContext"} /\ hist[j].op.op \in {"Get", "GetInContext"}
      /\ EffScope(cfg0, hist[i].op.id) = "contextual" /\ hist[i].v.k = "obj" /\ hist[j].v.k = "obj"
      /\ hist[i].v.id > Len(Globals) /\ hist[j].v.id > Len(Globals))      \* package-level variables have one identity by nature
     => ((hist[i].v.id = hist[j].v.id) <=>
           (hist[i].op.op = "GetInContext" /\ hist[j].op.op = "GetInContext" /\ hist[i].op.ctx = hist[j].op.ctx))
(* nothing held by the container-wide cache reaches an object stored in a context bag     *)
RECURSIVE ReachObjs(_, _, _)
ValObjs(v) == IF v.k = "obj" THEN {v.id} ELSE IF v.k = "list" THEN UNION {IF v.items[i].k = "obj" THEN {v.items[i].id} ELSE {} : i \in 1..Len(v.items)} ELSE {}
BodyObjs(b) == UNION ({ValObjs(b.args[i]) : i \in 1..Len(b.args)} \cup {ValObjs(b.F1), ValObjs(b.F2), ValObjs(b.f3), ValObjs(b.prev)}
                      \cup {ValObjs(b.payload[i].svc) : i \in 1..Len(b.payload)}
                      \cup {UNION {ValObjs(b.log[i].args[j]) : j \in 1..Len(b.log[i].args)} : i \in 1..Len(b.log)})
ReachObjs(heap, frontier, seen) ==
  IF frontier = {} THEN seen
  ELSE LET nxt == (UNION {BodyObjs(heap[i]) : i \in frontier}) \ seen IN ReachObjs(heap, nxt, seen \cup nxt)
SharedNeverHoldsContextual ==
  LET sharedRoots == UNION {ValObjs(st.shared[s]) : s \in DOMAIN st.shared}
      bagObjs == UNION {UNION {ValObjs(st.bags[c][s]) : s \in DOMAIN st.bags[c]} : c \in DOMAIN st.bags}
  IN ReachObjs(st.heap, sharedRoots, sharedRoots) \cap bagObjs = {}
=============================================================================
