------------------------ MODULE Trace_ContainerConc ------------------------
(* Binding ContainerConc.tla to the real runtime: small concurrent runs of a generated      *)
(* container (the chain A shared <- B contextual <- C non_shared, A needs parameter P) are   *)
(* recorded and must be behaviours of ContainerConc.  Logged: operation start and return     *)
(* (with the serial number of the returned instance), and - from inside the fixture          *)
(* constructor / parameter function, i.e. under the runtime's per-entry lock - every         *)
(* construction.  Not logged: lock acquisition, cache lookups, dependency descent, stores,   *)
(* unlocks; these are taken as silent steps, so TLC searches for an interleaving of    *)
(* ContainerConc that explains the observed order AND the observed instance identities.      *)
EXTENDS ContainerConc, Json

Trace == ndJsonDeserialize("trace.ndjson")
Header == Trace[1]
TG == 1..Len(Header.ops)
TOps == [g \in TG |-> Header.ops[g]]
TSvc == {"A", "B", "C"}
TPar == {"P"}
TScope == [s \in TSvc |-> CASE s = "A" -> "shared" [] s = "B" -> "contextual" [] OTHER -> "non_shared"]
TDeps == [x \in TSvc \cup TPar |->
            CASE x = "A" -> <<<<"par", "P">>>> [] x = "B" -> <<<<"svc", "A">>>>
              [] x = "C" -> <<<<"svc", "B">>, <<"svc", "A">>>> [] OTHER -> <<>>]
MadeOf == [s \in TSvc |-> CASE s = "A" -> "probe.test/fx.NewA" [] s = "B" -> "probe.test/fx.NewB" [] OTHER -> "probe.test/fx.NewC"]

VARIABLES l, serials        \* position in the trace; serial numbers of the constructed instances, in construction order
tvars == <<cvars, l, serials>>

Ev == Trace[l]
Is(e) == l <= Len(Trace) /\ Ev.ev = e
Consume == l' = l + 1

TInit == CInit /\ l = 2 /\ serials = <<>> /\ TLCSet(1, 0)

TStart == Is("op_start") /\ Begin(Ev.g) /\ Consume /\ UNCHANGED serials
TCtor  == /\ Is("ctor")
          /\ \E g \in TG : /\ Busy(g) /\ Top(g).kind = "svc" /\ MadeOf[Top(g).id] = Ev.name
                           /\ Construct(g)
          /\ serials' = Append(serials, Ev.serial) /\ Consume
TFn    == /\ Is("fn")
          /\ \E g \in TG : Busy(g) /\ Top(g).kind = "par" /\ Construct(g)
          /\ Consume /\ UNCHANGED serials
(* an operation returns: the instance the model hands out must be the one the real container returned *)
TReturn == /\ Is("op_return")
           /\ Busy(Ev.g) /\ Len(stack[Ev.g]) = 1 /\ Top(Ev.g).phase = "return"
           /\ (Top(Ev.g).kind = "svc" => (Top(Ev.g).inst \in 1..Len(serials) /\ serials[Top(Ev.g).inst] = Ev.serial))
           /\ Return(Ev.g) /\ Consume /\ UNCHANGED serials
(* the mutex is released (deferred Unlock) BEFORE the probe logs the return of the operation: Unlock is silent too *)
Silent == /\ \E g \in TG : Lock(g) \/ Check(g) \/ Dep(g) \/ Store(g) \/ Unlock(g)
          /\ UNCHANGED <<l, serials>>

TNext == TStart \/ TCtor \/ TFn \/ TReturn \/ Silent

HW == IF l > TLCGet(1) THEN TLCSet(1, l) ELSE TRUE
Report == PrintT(<<"HW", TLCGet(1), Len(Trace)>>)
=============================================================================
