---------------------------- MODULE MC_Confusion ----------------------------
(* C12 (a): schema-aware type confusions.  Every node of a complete base document          *)
(* (numbered 1..NPos by the harness in document order) is replaced by every YAML node      *)
(* kind, singly, and in pairs for the kinds in PairKinds.                                  *)
EXTENDS Naturals, Sequences, TLC, Json
CONSTANTS NPos, Kinds, PairKinds
VARIABLE subs
Sub(p, k) == [p |-> p, k |-> k]
Init == \/ \E p \in 1..NPos, k \in Kinds : subs = <<Sub(p, k)>>
        \/ \E p1 \in 1..NPos, p2 \in 1..NPos, k1 \in PairKinds, k2 \in PairKinds : p1 < p2 /\ subs = <<Sub(p1, k1), Sub(p2, k2)>>
Next == FALSE /\ UNCHANGED subs
Emit == PrintT(<<"ST", ToJson([subs |-> subs])>>)
=============================================================================
