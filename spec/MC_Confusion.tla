---------------------------- MODULE MC_Confusion ----------------------------
(* C12 (a): schema-aware type confusions.  Every node of a complete base document          *)
(* (numbered 1..NPos by the harness in document order) is replaced by every YAML node      *)
(* kind, singly, and in pairs for the kinds in PairKinds.                                  *)
EXTENDS Naturals, Sequences, TLC, Json, ConfusionPositions
CONSTANTS NPos, Kinds, PairKinds
VARIABLE subs

(* What the harness's base document holds at each numbered position: "map", "seq" or "scalar"; written by the harness *)
(* next to this module (ConfusionPositions.tla) because it is derived from the same document the positions number.      *)
Expected == ExpectedKinds

(* node class of each replacement kind *)
KindClass(k) ==
  CASE k \in {"emptyseq", "seq", "nested"} -> "seq"
    [] k \in {"emptymap", "map", "tagset", "mergekey"} -> "map"
    [] k = "null" -> "null"
    [] k = "alias" -> "scalar"                \* the anchor *anc holds the scalar x
    [] OTHER -> "scalar"
(* C11, wrong YAML node kinds: a collection where a scalar is expected, a scalar where a collection is expected, or the    *)
(* other collection, cannot be a configuration; null and scalar-for-scalar replacements are left to the YAML library's     *)
(* coercions (Unconstrained)                                                                                                *)
Incompatible(e, c) == c # "null" /\ e # "any" /\ e # c
MustReject(ss) == \E i \in 1..Len(ss) : Incompatible(Expected[ss[i].p], KindClass(ss[i].k))
Sub(p, k) == [p |-> p, k |-> k]
Init == \/ \E p \in 1..NPos, k \in Kinds : subs = <<Sub(p, k)>>
        \/ \E p1 \in 1..NPos, p2 \in 1..NPos, k1 \in PairKinds, k2 \in PairKinds : p1 < p2 /\ subs = <<Sub(p1, k1), Sub(p2, k2)>>
Next == FALSE /\ UNCHANGED subs
Emit == PrintT(<<"ST", ToJson([subs |-> subs, reject |-> MustReject(subs)])>>)
=============================================================================
