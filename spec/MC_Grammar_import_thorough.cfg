CONSTANTS
 Position = "import"
 Alphabet = {"L", "D", "PT", "HY", "US", "SL", "QT", "SP"}
 MaxLen = 5
INIT Init
NEXT Next
INVARIANT Emit
