----------------------------- MODULE MC_Version -----------------------------
EXTENDS Version, Json
CONSTANTS Majors, Minors, Patches, SuffixNames    \* subset of {"none", "pre", "bld", "both"}
Suffixes == {<<n \in {"pre", "both"}, n \in {"bld", "both"}>> : n \in SuffixNames}
VARIABLES B, V
Dummy == SemVer(0, 0, 0, FALSE, FALSE)
SemVers == {SemVer(ma, mi, pa, s[1], s[2]) : ma \in Majors, mi \in Minors, pa \in Patches, s \in Suffixes}
Builds == {[kind |-> k, v |-> x] : k \in {"semver", "vsemver"}, x \in SemVers}
          \cup {[kind |-> k, v |-> Dummy] : k \in {"devel", "dev-main", "empty"}}
Decls  == {[kind |-> "semver", v |-> x] : x \in SemVers}
          \cup {[kind |-> k, v |-> Dummy] : k \in Malformed \cup {"absent"}}
Init == B \in Builds /\ V \in Decls
Next == FALSE /\ UNCHANGED <<B, V>>
Emit == PrintT(<<"ST", ToJson([B |-> B, V |-> V, exp |-> Gate(B, V)])>>)
(* R1 *)
PatchIrrelevant ==
  \A pa \in Patches, s \in Suffixes :
     LET B2 == IF BuildIsSemver(B) THEN [B EXCEPT !.v.pat = pa, !.v.pre = s[1], !.v.bld = s[2]] ELSE B
         V2 == IF V.kind = "semver" THEN [V EXCEPT !.v.pat = pa, !.v.pre = s[2], !.v.bld = s[1]] ELSE V
     IN Gate(B2, V2) = Gate(B, V)
=============================================================================
