CONSTANT Family = "N"
INIT Init
NEXT Next
INVARIANT Emit
INVARIANT ScopeRuleSound
INVARIANT FlagsOnlyNarrow
INVARIANT AcceptedMeansClosed
