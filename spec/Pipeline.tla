------------------------------ MODULE Pipeline ------------------------------
(* `gontainer build` as a state machine: the runner executes five top-level steps in     *)
(* order and stops at the first one that fails; inside "Validate output" all four rules  *)
(* run and their errors are joined; the output file is written once, at the very end.    *)
(* Mirrors cmd_build.go, runner/runner.go, step_amalgamated.go, step_verbose_switchable, *)
(* step_read_config.go, step_code_generator.go and gontainer_runner.yaml.                *)
(*                                                                                       *)
(* A scenario `sc` abstracts the environment of one run:                                 *)
(*   pats    : one outcome per -i pattern                                                *)
(*             nomatch | badglob | good1 | good2 | dir | badyaml | wrongkind | same      *)
(*             ("same" = matches the file the previous pattern already matched)          *)
(*   defects : set of defect classes carried by the merged configuration                 *)
(*             grammar | version | token | scope | cycle | missP | missS | fmt           *)
(*   quiet, stub, ignoreP, ignoreS : the flags                                           *)
(*   outpre  : state of the -o path: absent | file | missingdir | isdir | underfile      *)
(*   free    : TRUE when nothing is known about the input (arbitrary bytes, C12): every   *)
(*             step may then succeed or fail, but the protocol and the contract hold      *)
EXTENDS Naturals, Sequences, FiniteSets, TLC

CONSTANT MaxErr            \* bound on the number of errors one step may report

VARIABLES sc, pc, steps, subs, nerr, exit, out
pvars == <<sc, pc, steps, subs, nerr, exit, out>>

Running == 9               \* exit status while the command has not terminated

TopSteps == <<"Default input", "Read config", "Compile", "Validate output", "Generate code">>
Rules    == <<"Scope", "Circular dependencies", "Missing parameters", "Missing services">>

PatOutcomes == {"nomatch", "badglob", "good1", "good2", "dir", "badyaml", "wrongkind", "same"}
DefectClasses == {"grammar", "version", "token", "scope", "cycle", "missP", "missS", "fmt"}
OutStates == {"absent", "file", "missingdir", "isdir", "underfile"}

-----------------------------------------------------------------------------
(* What the environment makes of each step.                                              *)
Processed(s) == \E i \in 1..Len(s.pats) : s.pats[i] \in {"good1", "good2", "same"}
ReadBad(s) ==
  \/ \E i \in 1..Len(s.pats) : s.pats[i] \in {"badglob", "dir", "badyaml", "wrongkind", "same"}
  \/ ~Processed(s)                                   \* "could not process any files"

CompileBad(s) == s.defects \cap {"grammar", "version", "token"} # {}

RuleResult(s, r) ==
  CASE r = "Scope"                 -> IF "scope" \in s.defects THEN "fail" ELSE "ok"
    [] r = "Circular dependencies" -> IF "cycle" \in s.defects THEN "fail" ELSE "ok"
    [] r = "Missing parameters"    -> IF s.ignoreP THEN "ignored" ELSE IF "missP" \in s.defects THEN "fail" ELSE "ok"
    [] r = "Missing services"      -> IF s.ignoreS THEN "ignored" ELSE IF "missS" \in s.defects THEN "fail" ELSE "ok"

Unwritable(s) == s.outpre \in {"missingdir", "isdir", "underfile"}
GenerateBad(s) == ("fmt" \in s.defects /\ ~s.stub) \/ Unwritable(s)

-----------------------------------------------------------------------------
StepRec(name, depth, st, c) == [n |-> name, d |-> depth, st |-> st, c |-> c]

Init0(s) ==
  /\ sc = s /\ pc = "Default input" /\ steps = <<>> /\ subs = <<>>
  /\ nerr = 0 /\ exit = Running /\ out = "pre"

(* the same as an action: a new run starts (used by the trace specification)             *)
Start(s) ==
  /\ sc' = s /\ pc' = "Default input" /\ steps' = <<>> /\ subs' = <<>>
  /\ nerr' = 0 /\ exit' = Running /\ out' = "pre"

Ok(name, nextpc) ==
  /\ steps' = Append(steps, StepRec(name, 0, "ok", 0))
  /\ pc' = nextpc
  /\ UNCHANGED <<sc, subs, nerr, exit, out>>

(* A failing top-level step reports n >= 1 errors, the numbered list has n entries, the   *)
(* command exits 1 and the output path is left as it was.                                 *)
Fail(name, n) ==
  /\ n \in 1..MaxErr
  /\ steps' = Append(steps, StepRec(name, 0, "fail", n))
  /\ nerr' = n
  /\ exit' = 1
  /\ pc' = "failed"
  /\ UNCHANGED <<sc, subs, out>>

DefaultInput == pc = "Default input" /\ Ok("Default input", "Read config")

Either(bad, name, n, nextpc) ==
  IF sc.free THEN (Fail(name, n) \/ (n = 1 /\ Ok(name, nextpc)))
  ELSE IF bad THEN Fail(name, n) ELSE (n = 1 /\ Ok(name, nextpc))

ReadConfig(n) == pc = "Read config" /\ Either(ReadBad(sc), "Read config", n, "Compile")

Compile(n) == pc = "Compile" /\ Either(CompileBad(sc), "Compile", n, "rule1")

(* The four validation rules: each runs whatever the others found.                        *)
RuleIdx == CASE pc = "rule1" -> 1 [] pc = "rule2" -> 2 [] pc = "rule3" -> 3 [] pc = "rule4" -> 4 [] OTHER -> 0
NextRulePc(i) == IF i = 4 THEN "rules_end" ELSE <<"rule2", "rule3", "rule4">>[i]

Rule(n) ==
  /\ RuleIdx # 0
  /\ LET r == Rules[RuleIdx] IN
     \E res \in (IF sc.free THEN (IF RuleResult(sc, r) = "ignored" THEN {"ignored"} ELSE {"ok", "fail"}) ELSE {RuleResult(sc, r)}) :
       /\ IF res = "fail" THEN n \in 1..MaxErr ELSE n = 0
       /\ subs' = Append(subs, StepRec(r, 1, res, n))
       /\ pc' = NextRulePc(RuleIdx)
  /\ UNCHANGED <<sc, steps, nerr, exit, out>>

SubErrs == LET F[i \in 0..Len(subs)] == IF i = 0 THEN 0 ELSE F[i - 1] + subs[i].c IN F[Len(subs)]

ValidateEnd ==
  /\ pc = "rules_end"
  /\ IF SubErrs > 0 THEN Fail("Validate output", SubErrs) ELSE Ok("Validate output", "Generate code")

(* Code generation: render + format, then one write.                                      *)
GenOk ==
  /\ steps' = Append(steps, StepRec("Generate code", 0, "ok", 0))
  /\ out' = "new"
  /\ exit' = 0
  /\ pc' = "done"
  /\ UNCHANGED <<sc, subs, nerr>>

Generate(n) ==
  /\ pc = "Generate code"
  /\ IF sc.free THEN (Fail("Generate code", n) \/ (n = 1 /\ GenOk))
     ELSE IF GenerateBad(sc) THEN Fail("Generate code", n) ELSE (n = 1 /\ GenOk)

Step == DefaultInput \/ ValidateEnd \/ \E n \in 0..MaxErr : ReadConfig(n) \/ Compile(n) \/ Rule(n) \/ Generate(n)

Terminated == pc \in {"done", "failed"}

-----------------------------------------------------------------------------
(* The contract (C10).                                                                   *)
ExitIff     == Terminated => ((exit = 0) <=> (out = "new"))
Untouched   == exit = 1 => out = "pre"
ExitRange   == exit \in {Running, 0, 1} /\ (Terminated <=> exit # Running)
CountMatch  == exit = 1 => /\ steps[Len(steps)].st = "fail"
                           /\ steps[Len(steps)].c = nerr /\ nerr >= 1
OneFailLast == \A i \in 1..Len(steps) : steps[i].st = "fail" => i = Len(steps) /\ pc = "failed"
InOrder     == \A i \in 1..Len(steps) : steps[i].n = TopSteps[i]
WriteLast   == out = "new" => pc = "done"
RulesAllRun == pc \in {"rules_end"} => Len(subs) = 4

(* Expected observation of a terminated run, as the harness sees it.                     *)
Failing == IF exit = 1 THEN steps[Len(steps)].n ELSE "none"
Outcome == [exit |-> exit, failing |-> Failing, out |-> out,
            rules |-> [i \in 1..Len(subs) |-> subs[i].st]]
=============================================================================
