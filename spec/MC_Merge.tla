------------------------------ MODULE MC_Merge ------------------------------
(* C09: multi-file merge semantics and split invariance.                                  *)
(*  family "pairs"  : a base file and a second file overriding one or two attributes, in   *)
(*                    both orders; the harness compares the tool's output on the two files *)
(*                    with its output on the single file Merge.tla computes.               *)
(*  family "split"  : rich configurations cut into k ordered pieces, the pieces laid out   *)
(*                    over files and -i patterns whose glob order differs from the lexical *)
(*                    order of the cleaned paths.                                          *)
(*  family "assoc"  : R1 only: associativity and identity over a universe of partial files *)
EXTENDS Merge, Json

CONSTANT Family
VARIABLES files, expect, layout
vars == <<files, expect, layout>>

Fx == <<[n |-> "fx", v |-> "probe.test/fx"]>>
Base ==
  [EmptyCfg EXCEPT
     !.meta = [EmptyMeta EXCEPT !.imports = Fx, !.functions = <<[n |-> "fn", v |-> "fx.Fn"]>>],
     !.params = ("p1" :> ALit("int", "5") @@ "p2" :> AStr("two") @@ "p8" :> APat(<<CFn("fn", "")>>)),
     !.services = (   "s1" :> [CtorSvc("fx.NewA", <<ALit("int", "1"), ARef("p1")>>) EXCEPT
                                 !.getter = "GetS1", !.type = "*fx.T", !.calls = <<Call("SetX", <<AStr("base")>>, FALSE)>>,
                                 !.fields = <<Field("F1", ALit("int", "9"))>>, !.tags = <<Tag("t1", 0)>>]
                   @@ "s2" :> CtorSvc("fx.NewB", <<>>)),
     !.decorators = <<Dec("t1", "fx.Decorate", <<AStr("d0")>>)>>]

(* a file that says something about service s1 only *)
OnlyS1(svc) == [EmptyCfg EXCEPT !.services = ("s1" :> svc)]
OnlyMeta(m) == [EmptyCfg EXCEPT !.meta = m]

(* one-attribute overrides: <<attribute name, file>> *)
Overrides ==
     {<<"getter", OnlyS1([EmptySvc EXCEPT !.getter = g])>> : g \in {"GetA", "GetS1"}}
\cup {<<"must", OnlyS1([EmptySvc EXCEPT !.must = m])>> : m \in {"true", "false"}}
\cup {<<"type", OnlyS1([EmptySvc EXCEPT !.type = t])>> : t \in {"*\"probe.test/fx\".T"}}
\cup {<<"ctor", OnlyS1([EmptySvc EXCEPT !.ctor = c])>> : c \in {"fx.NewZ"}}
\cup {<<"value", OnlyS1([EmptySvc EXCEPT !.value = "fx.Var"])>>}                    \* constructor + value: rejected either way
\cup {<<"args", OnlyS1([EmptySvc EXCEPT !.args = a])>> : a \in {<<ALit("int", "2")>>, <<AStr("x"), AStr("y"), AStr("z")>>}}
\cup {<<"calls", OnlyS1([EmptySvc EXCEPT !.calls = <<Call("SetY", <<AStr("later")>>, FALSE)>>])>>}
\cup {<<"calls", OnlyS1([EmptySvc EXCEPT !.calls = <<Call("SetX", <<AStr("base")>>, FALSE)>>])>>}   \* the same call again: appended, not deduplicated
\cup {<<"fields", OnlyS1([EmptySvc EXCEPT !.fields = f])>> : f \in {<<Field("F1", ALit("int", "10"))>>, <<Field("F2", AStr("f2"))>>}}
\cup {<<"tags", OnlyS1([EmptySvc EXCEPT !.tags = t])>> : t \in {<<Tag("t2", 5)>>, <<Tag("t1", 7)>>}}            \* t1 twice: duplicate tag, rejected either way
\cup {<<"scope", OnlyS1([EmptySvc EXCEPT !.scope = s])>> : s \in {"non_shared", "shared"}}
\cup {<<"todo", OnlyS1([EmptySvc EXCEPT !.todo = t])>> : t \in {"true", "false"}}
\cup {<<"params", [EmptyCfg EXCEPT !.params = p]>> : p \in {("p1" :> ALit("int", "6")), ("p3" :> AStr("three")), ("p2" :> ARef("p1"))}}
\cup {<<"decorators", [EmptyCfg EXCEPT !.decorators = <<Dec("t1", "fx.DecorateB", <<>>)>>]>>}
\cup {<<"decorators", [EmptyCfg EXCEPT !.decorators = <<Dec("t1", "fx.Decorate", <<AStr("d0")>>)>>]>>}       \* identical decorator again
\cup {<<"pkg", OnlyMeta([EmptyMeta EXCEPT !.pkg = "other"])>>, <<"ctype", OnlyMeta([EmptyMeta EXCEPT !.ctype = "Other"])>>,
      <<"cctor", OnlyMeta([EmptyMeta EXCEPT !.cctor = "NewOther"])>>, <<"defmust", OnlyMeta([EmptyMeta EXCEPT !.defmust = "true"])>>,
      <<"imports", OnlyMeta([EmptyMeta EXCEPT !.imports = <<[n |-> "fx", v |-> "probe.test/fy"]>>])>>,
      <<"imports", OnlyMeta([EmptyMeta EXCEPT !.imports = <<[n |-> "fy", v |-> "probe.test/fy"]>>])>>,
      <<"functions", OnlyMeta([EmptyMeta EXCEPT !.functions = <<[n |-> "fn", v |-> "fx.FnE"]>>])>>,
      <<"newsvc", [EmptyCfg EXCEPT !.services = ("s3" :> CtorSvc("fx.NewC", <<ASvc("s1")>>))]>>,
      <<"empty", EmptyCfg>>}

PairFiles ==
     {<<Base, o[2]>> : o \in Overrides} \cup {<<o[2], Base>> : o \in Overrides}
\cup {<<Base, Merge(o1[2], o2[2])>> : o1 \in Overrides, o2 \in Overrides}            \* two attributes at once
\cup {<<Base, o1[2], o2[2]>> : o1 \in Overrides, o2 \in {x \in Overrides : x[1] \in {"args", "calls", "tags", "params", "empty", "scope"}}}

-----------------------------------------------------------------------------
(* Splitting a configuration into k ordered pieces that merge back to it.                 *)
Seg(s, k, i) == LET n == Len(s) IN SubSeq(s, ((i - 1) * n) \div k + 1, (i * n) \div k)     \* i-th of k consecutive segments
Pick(k, j, i) == (j % k) + 1 = i                                                           \* attribute number j lives in piece i
SvcPiece(svc, k, i, off) ==
  [todo |-> IF Pick(k, off, i) THEN svc.todo ELSE Unset, getter |-> IF Pick(k, off + 1, i) THEN svc.getter ELSE Unset,
   must |-> IF Pick(k, off + 2, i) THEN svc.must ELSE Unset, type |-> IF Pick(k, off + 3, i) THEN svc.type ELSE Unset,
   value |-> IF Pick(k, off + 4, i) THEN svc.value ELSE Unset, ctor |-> IF Pick(k, off + 5, i) THEN svc.ctor ELSE Unset,
   args |-> IF Pick(k, off + 6, i) THEN svc.args ELSE <<>>,
   calls |-> Seg(svc.calls, k, i), fields |-> Seg(svc.fields, k, i), tags |-> Seg(svc.tags, k, i),
   scope |-> IF Pick(k, off + 7, i) THEN svc.scope ELSE Unset]
NonEmptySvc(p) == p # EmptySvc
Piece(c, k, i) ==
  LET names == SortSeq(SetToSeq(DOMAIN c.services), NameLt)
      svcs == {names[j] : j \in {x \in 1..Len(names) : NonEmptySvc(SvcPiece(c.services[names[x]], k, i, x))}}
      pnames == SortSeq(SetToSeq(DOMAIN c.params), NameLt)
  IN [version |-> IF Pick(k, 0, i) THEN c.version ELSE Unset,
      meta |-> [pkg |-> IF Pick(k, 1, i) THEN c.meta.pkg ELSE Unset, ctype |-> IF Pick(k, 2, i) THEN c.meta.ctype ELSE Unset,
                cctor |-> IF Pick(k, 3, i) THEN c.meta.cctor ELSE Unset, defmust |-> IF Pick(k, 4, i) THEN c.meta.defmust ELSE Unset,
                imports |-> Seg(c.meta.imports, k, i), functions |-> Seg(c.meta.functions, k, i)],
      params |-> [p \in {pnames[j] : j \in {x \in 1..Len(pnames) : Pick(k, x, i)}} |-> c.params[p]],
      services |-> [s \in svcs |-> SvcPiece(c.services[s], k, i, CHOOSE j \in 1..Len(names) : names[j] = s)],
      decorators |-> Seg(c.decorators, k, i)]
Pieces(c, k, mode) ==
  CASE mode = "even"  -> [i \in 1..k |-> Piece(c, k, i)]
    [] mode = "front" -> [i \in 1..k |-> IF i = 1 THEN c ELSE EmptyCfg]          \* the empty file is an identity
    [] mode = "back"  -> [i \in 1..k |-> IF i = k THEN c ELSE EmptyCfg]
    [] mode = "mid"   -> [i \in 1..k |-> IF i = (k + 1) \div 2 THEN c ELSE [EmptyCfg EXCEPT !.params = ("p9" :> ALit("int", "9"))]]

Rich ==
  { [Base EXCEPT !.services = [Base.services EXCEPT !["s1"] =
        [@ EXCEPT !.calls = <<Call("SetX", <<AStr("1")>>, FALSE), Call("WithX", <<AStr("2")>>, TRUE), Call("SetY", <<ARef("p2")>>, FALSE)>>,
                  !.fields = <<Field("F1", ASvc("s2")), Field("F2", AStr("f")), Field("f3", ALit("bool", "true"))>>,
                  !.tags = <<Tag("t1", 3), Tag("t2", -1), Tag("t3", 0)>>, !.scope = "non_shared", !.must = "true"]],
            !.decorators = <<Dec("t1", "fx.Decorate", <<AStr("a")>>), Dec("t2", "fx.DecorateB", <<ASvc("s2")>>), Dec("t1", "fx.DecorateC", <<>>)>>,
            !.meta = [Base.meta EXCEPT !.pkg = "mypkg", !.ctype = "MyC", !.cctor = "NewMyC", !.defmust = "false",
                                       !.imports = Fx \o <<[n |-> "fy", v |-> "probe.test/fy"]>>]],
    Base }

(* layouts: -i patterns in order, each with the files it matches listed in LEXICAL order   *)
(* of the cleaned paths (which is the merge order); the harness creates exactly these      *)
(* files.  Glob returns conf/ before conf-local/ and 10.yaml before 9.yaml only by luck of *)
(* directory listing order, so the lexical order differs from glob / numeric order.        *)
Layouts ==
  { << <<"one.yaml">> >>,
    << <<"x/10.yaml", "x/9.yaml">> >>,
    << <<"conf-local/app.yaml", "conf/app.yaml">> >>,
    << <<"z.yaml">>, <<"a.yaml">> >>,                                         \* pattern order beats name order
    << <<"x/10.yaml", "x/9.yaml">>, <<"one.yaml">> >>,
    << <<"conf-local/app.yaml", "conf/app.yaml">>, <<"b/c.yaml">>, <<"x/10.yaml", "x/9.yaml">> >>,
    << <<"a.yaml">>, <<"sub/a.yaml", "sub/b.yaml", "sub/c.yaml">> >>,
    << <<"c,d.yaml">>, <<"e,1.yaml", "e,2.yaml">> >>,                         \* commas are ordinary characters of a file name
    << <<"m/Zz.yaml", "m/app.yaml", "m/local.yaml">> >>,                      \* byte order, not case-folded / locale order
    << <<"n/a-b.yaml", "n/aBb.yaml", "n/a_b.yaml">>, <<"m/Zz.yaml", "m/app.yaml", "m/local.yaml">> >> }
PatternOf(fs) ==
  CASE fs = <<"one.yaml">> -> "one.yaml" [] fs = <<"x/10.yaml", "x/9.yaml">> -> "x/*.yaml"
    [] fs = <<"conf-local/app.yaml", "conf/app.yaml">> -> "conf*/*.yaml" [] fs = <<"z.yaml">> -> "./z.yaml"
    [] fs = <<"a.yaml">> -> "sub/../a.yaml" [] fs = <<"b/c.yaml">> -> "b//c.yaml"
    [] fs = <<"sub/a.yaml", "sub/b.yaml", "sub/c.yaml">> -> "sub/?.yaml"
    [] fs = <<"c,d.yaml">> -> "c,d.yaml" [] fs = <<"e,1.yaml", "e,2.yaml">> -> "e,?.yaml"
    [] fs = <<"m/Zz.yaml", "m/app.yaml", "m/local.yaml">> -> "m/*.yaml" [] fs = <<"n/a-b.yaml", "n/aBb.yaml", "n/a_b.yaml">> -> "n/a?b.yaml"
FlatFiles(l) == FlattenSeq(l)

-----------------------------------------------------------------------------
(* reduced universe for associativity *)
U == {Base, EmptyCfg} \cup {o[2] : o \in {x \in Overrides : x[1] \in {"getter", "args", "calls", "fields", "tags", "scope", "params", "decorators", "imports", "newsvc", "todo"}}}

Init ==
  CASE Family = "pairs" -> \E f \in PairFiles : files = f /\ expect = MergeAll(f) /\ layout = <<>>
    [] Family = "split" -> \E c \in Rich, l \in Layouts, mode \in {"even", "front", "back", "mid"} :
                              /\ files = Pieces(c, Len(FlatFiles(l)), mode) /\ expect = MergeAll(Pieces(c, Len(FlatFiles(l)), mode))
                              /\ layout = [i \in 1..Len(l) |-> [pattern |-> PatternOf(l[i]), paths |-> l[i]]]
    [] Family = "assoc" -> \E a \in U, b \in U, c \in U : files = <<a, b, c>> /\ expect = EmptyCfg /\ layout = <<>>
Next == FALSE /\ UNCHANGED vars

Emit == Family # "assoc" => PrintT(<<"ST", ToJson([files |-> files, expect |-> expect, layout |-> layout])>>)

(* R1 *)
Associative == Family = "assoc" => SameCfg(Merge(Merge(files[1], files[2]), files[3]), Merge(files[1], Merge(files[2], files[3])))
Identity    == \A i \in 1..Len(files) : SameCfg(Merge(EmptyCfg, files[i]), files[i]) /\ SameCfg(Merge(files[i], EmptyCfg), files[i])
SplitBack   == Family = "split" => \A c \in Rich, k \in 1..6 : SameCfg(MergeAll(Pieces(c, k, "even")), c) /\ SameCfg(MergeAll(Pieces(c, k, "front")), c)
=============================================================================
