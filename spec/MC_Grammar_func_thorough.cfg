CONSTANTS
 Position = "func"
 Alphabet = {"L", "D", "PT", "US", "SL", "QT", "ST", "AM", "SP"}
 MaxLen = 6
INIT Init
NEXT Next
INVARIANT Emit
