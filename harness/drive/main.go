// Command verifdrive is the in-process driver used by /verif. It is never committed to
// /repo: it is added to the module at build time with `go build -overlay` as
// internal/verifdrive/main.go so that it may import internal/cmd. It replaces no file.
//
// Protocol: one JSON job per stdin line, one JSON result per stdout line.
package main

import (
	"bufio"
	"bytes"
	"crypto/sha256"
	"encoding/hex"
	"encoding/json"
	"fmt"
	"os"
	"runtime/debug"
	"time"

	"github.com/gontainer/gontainer/internal/cmd"
)

type job struct {
	ID        int      `json:"id"`
	Dir       string   `json:"dir"`  // chdir here before running ("" = stay)
	Args      []string `json:"args"` // arguments after "build"
	Version   string   `json:"version"`
	BuildInfo string   `json:"buildinfo"`
	Out       string   `json:"out"`      // path observed before/after (relative to Dir or absolute)
	WantOut   bool     `json:"want_out"` // return the bytes of Out after the run
	TimeoutMs int      `json:"timeout_ms"`
}

type fileState struct {
	Kind string `json:"kind"` // absent | file | dir | other | err
	Sha  string `json:"sha,omitempty"`
	Size int64  `json:"size"`
}

type result struct {
	ID      int       `json:"id"`
	Exit    int       `json:"exit"` // 0 = nil error, 1 = error returned, 2 = panic, 3 = timeout
	Err     string    `json:"err,omitempty"`
	Panic   string    `json:"panic,omitempty"`
	Stdout  string    `json:"stdout"`
	Stderr  string    `json:"stderr"`
	Pre     fileState `json:"pre"`
	Post    fileState `json:"post"`
	OutData string    `json:"out_data,omitempty"`
	Ms      float64   `json:"ms"`
}

func stat(p string) (fs fileState, data []byte) {
	if p == "" {
		return fileState{Kind: "absent"}, nil
	}
	st, err := os.Lstat(p)
	if err != nil {
		if os.IsNotExist(err) {
			return fileState{Kind: "absent"}, nil
		}
		return fileState{Kind: "err"}, nil
	}
	if st.IsDir() {
		return fileState{Kind: "dir"}, nil
	}
	if !st.Mode().IsRegular() {
		return fileState{Kind: "other"}, nil
	}
	b, err := os.ReadFile(p)
	if err != nil {
		return fileState{Kind: "err"}, nil
	}
	h := sha256.Sum256(b)
	return fileState{Kind: "file", Sha: hex.EncodeToString(h[:]), Size: int64(len(b))}, b
}

func run(j job) (r result) {
	r.ID = j.ID
	if j.Dir != "" {
		if err := os.Chdir(j.Dir); err != nil {
			r.Exit = 4
			r.Err = "chdir: " + err.Error()
			return
		}
	}
	r.Pre, _ = stat(j.Out)
	type outcome struct {
		err   error
		panic string
	}
	done := make(chan outcome, 1)
	var so, se bytes.Buffer
	start := time.Now()
	go func() {
		var o outcome
		defer func() {
			if p := recover(); p != nil {
				o.panic = fmt.Sprintf("%v\n%s", p, debug.Stack())
			}
			done <- o
		}()
		c := cmd.NewBuildCmd(j.Version, j.BuildInfo)
		c.SetOut(&so)
		c.SetErr(&se)
		c.SetArgs(j.Args)
		o.err = c.Execute()
	}()
	to := time.Duration(j.TimeoutMs) * time.Millisecond
	if to <= 0 {
		to = 120 * time.Second
	}
	select {
	case o := <-done:
		switch {
		case o.panic != "":
			r.Exit = 2
			r.Panic = o.panic
		case o.err != nil:
			r.Exit = 1
			r.Err = o.err.Error()
		}
		r.Stdout = so.String()
		r.Stderr = se.String()
	case <-time.After(to):
		r.Exit = 3
	}
	r.Ms = float64(time.Since(start).Microseconds()) / 1000
	var data []byte
	r.Post, data = stat(j.Out)
	if j.WantOut && data != nil {
		r.OutData = string(data)
	}
	return
}

func main() {
	in := bufio.NewReaderSize(os.Stdin, 1<<20)
	out := bufio.NewWriter(os.Stdout)
	dec := json.NewDecoder(in)
	enc := json.NewEncoder(out)
	for {
		var j job
		if err := dec.Decode(&j); err != nil {
			return
		}
		r := run(j)
		_ = enc.Encode(r)
		_ = out.Flush()
		if r.Exit == 3 { // a hung goroutine cannot be killed: leave, the pool restarts us
			os.Exit(3)
		}
	}
}
