// Package obj is the shared object model of the fixture universe: every fixture constructor returns an
// *Obj (or an Obj by value) that records who made it, what it received and what was done to it.
package obj

import (
	"fmt"
	"reflect"
	"sort"
	"strconv"
	"sync"
	"sync/atomic"
)

var serial int64

// NextSerial hands out process-wide object numbers.
func NextSerial() int64 { return atomic.AddInt64(&serial, 1) }

type Event struct {
	M    string
	Args []any
}

type Payload struct {
	Tag string
	ID  string
	Svc any
}

type Obj struct {
	serial  int64
	Made    string // "<package id>.<symbol>"
	Args    []any
	F1, F2  any
	f3      any
	Log     []Event
	Prev    any // receiver of the wither that produced this object
	Payload *Payload
}

// ID returns the object's number, assigning one to composite literals (&S{}) on first use.
func (o *Obj) ID() int64 {
	for {
		s := atomic.LoadInt64(&o.serial)
		if s != 0 {
			return s
		}
		if atomic.CompareAndSwapInt64(&o.serial, 0, NextSerial()) {
			continue
		}
	}
}

var (
	counters   = map[string]int{}
	countersMu sync.Mutex
)

func Count(key string) {
	countersMu.Lock()
	counters[key]++
	countersMu.Unlock()
}

func Counters() map[string]int {
	countersMu.Lock()
	defer countersMu.Unlock()
	r := make(map[string]int, len(counters))
	for k, v := range counters {
		r[k] = v
	}
	return r
}

func ResetCounters() {
	countersMu.Lock()
	counters = map[string]int{}
	countersMu.Unlock()
}

// Hook is called inside every fixture constructor / function (C20 uses it to log events at the
// linearization point, i.e. under the runtime's per-entry lock).
var Hook func(kind, name string, serial int64)

func Make(made string, args []any) *Obj {
	Count("made:" + made)
	o := &Obj{serial: NextSerial(), Made: made, Args: append([]any(nil), args...)}
	if h := Hook; h != nil {
		h("ctor", made, o.serial)
	}
	return o
}

func (o *Obj) log(m string, args []any) {
	o.Log = append(o.Log[:len(o.Log):len(o.Log)], Event{M: m, Args: append([]any(nil), args...)})
}

// pointer-receiver setters
func (o *Obj) SetX(args ...any) { o.log("SetX", args) }
func (o *Obj) SetY(args ...any) { o.log("SetY", args) }

// SetE fails when its first argument is the string "fail".
func (o *Obj) SetE(args ...any) error {
	if len(args) > 0 && args[0] == "fail" {
		return fmt.Errorf("fixture: SetE fails")
	}
	o.log("SetE", args)
	return nil
}

// pointer-receiver withers: a new object that remembers its predecessor
func (o *Obj) WithX(args ...any) *Obj {
	n := Make("wither.WithX", args)
	n.Prev = o
	return n
}
func (o *Obj) WithY(args ...any) *Obj {
	n := Make("wither.WithY", args)
	n.Prev = o
	return n
}

// value-receiver methods (for services held by value)
func (o Obj) WithV(args ...any) Obj {
	n := Make("wither.WithV", args)
	n.Prev = o
	return *n
}

// ---------------------------------------------------------------------------------------------
// Describe: a JSON-able term for any value the container hands out.

type Term = map[string]any

type Describer struct {
	Heap       map[string]Term
	IsContainer func(any) bool
	seen       map[int64]bool
}

func NewDescriber(isContainer func(any) bool) *Describer {
	return &Describer{Heap: map[string]Term{}, IsContainer: isContainer, seen: map[int64]bool{}}
}

func (d *Describer) list(vs []any) []any {
	r := make([]any, len(vs))
	for i, v := range vs {
		r[i] = d.Value(v)
	}
	return r
}

func (d *Describer) body(o *Obj) Term {
	t := Term{"made": o.Made, "args": d.list(o.Args), "F1": d.Value(o.F1), "F2": d.Value(o.F2), "f3": d.Value(o.f3)}
	lg := make([]any, len(o.Log))
	for i, e := range o.Log {
		lg[i] = Term{"m": e.M, "args": d.list(e.Args)}
	}
	t["log"] = lg
	t["prev"] = d.Value(o.Prev)
	if o.Payload != nil {
		t["payload"] = Term{"tag": o.Payload.Tag, "id": o.Payload.ID, "svc": d.Value(o.Payload.Svc)}
	} else {
		t["payload"] = nil
	}
	return t
}

func (d *Describer) Value(v any) Term {
	if v == nil {
		return Term{"k": "nil"}
	}
	if d.IsContainer != nil && d.IsContainer(v) {
		return Term{"k": "container"}
	}
	switch x := v.(type) {
	case *Obj:
		if x == nil {
			return Term{"k": "nilptr"}
		}
		id := x.ID()
		if !d.seen[id] {
			d.seen[id] = true
			d.Heap[fmt.Sprint(id)] = d.body(x)
		}
		return Term{"k": "obj", "id": id}
	case Obj:
		return Term{"k": "objval", "body": d.body(&x)}
	case []any:
		return Term{"k": "list", "items": d.list(x)}
	case string:
		return Term{"k": "lit", "t": "string", "v": x}
	case error:
		return Term{"k": "error", "v": x.Error()}
	case float64:
		return Term{"k": "lit", "t": "float64", "v": strconv.FormatFloat(x, 'f', -1, 64)}
	case float32:
		return Term{"k": "lit", "t": "float32", "v": strconv.FormatFloat(float64(x), 'f', -1, 32)}
	case bool, int, int8, int16, int32, int64, uint, uint8, uint16, uint32, uint64:
		return Term{"k": "lit", "t": fmt.Sprintf("%T", v), "v": fmt.Sprint(v)}
	}
	rv := reflect.ValueOf(v)
	if rv.Kind() == reflect.Struct && rv.Type().ConvertibleTo(reflect.TypeOf(Obj{})) {
		o := rv.Convert(reflect.TypeOf(Obj{})).Interface().(Obj)
		return Term{"k": "objval", "body": d.body(&o)}
	}
	if rv.Kind() == reflect.Slice {
		items := make([]any, rv.Len())
		for i := range items {
			items[i] = d.Value(rv.Index(i).Interface())
		}
		return Term{"k": "list", "t": fmt.Sprintf("%T", v), "items": items}
	}
	return Term{"k": "other", "t": fmt.Sprintf("%T", v)}
}

func SortedKeys(m map[string]int) []string {
	ks := make([]string, 0, len(m))
	for k := range m {
		ks = append(ks, k)
	}
	sort.Strings(ks)
	return ks
}
