// Types-only variant of the fixture package: what a --stub build may rely on (C17).
package __PKG__

import "probe.test/obj"

const PkgID = "__PKGID__"

type (
	S = obj.Obj
	T = obj.Obj
	N obj.Obj
)
