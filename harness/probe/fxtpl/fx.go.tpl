// Fixture package; instantiated at several import paths (and inside every generated package as
// local.go) with a different PkgID, so that a constructed object tells which package made it.
package __PKG__

import (
	"errors"
	"fmt"
	"time"

	"github.com/gontainer/gontainer-helpers/v3/container"
	"probe.test/obj"
)

const PkgID__SUFFIX__ = "__PKGID__"

type (
	S__SUFFIX__ = obj.Obj
	T__SUFFIX__ = obj.Obj
	// N is convertible to, but not assignable from, what NewV returns
	N__SUFFIX__ obj.Obj
)

func mk__SUFFIX__(sym string, args []any) *obj.Obj { return obj.Make(PkgID__SUFFIX__+"."+sym, args) }

func NewA(args ...any) *obj.Obj { return mk__SUFFIX__("NewA", args) }
func NewB(args ...any) *obj.Obj { return mk__SUFFIX__("NewB", args) }
func NewC(args ...any) *obj.Obj { return mk__SUFFIX__("NewC", args) }
func NewD(args ...any) *obj.Obj { return mk__SUFFIX__("NewD", args) }
func NewZ(args ...any) *obj.Obj { return mk__SUFFIX__("NewZ", args) }

// NewV returns the object by value.
func NewV(args ...any) obj.Obj { return *mk__SUFFIX__("NewV", args) }

// NewE fails when its first argument is the string "fail".
func NewE(args ...any) (*obj.Obj, error) {
	if len(args) > 0 && args[0] == "fail" {
		obj.Count("made:" + PkgID__SUFFIX__ + ".NewE!")
		return nil, errors.New("fixture: NewE fails")
	}
	return mk__SUFFIX__("NewE", args), nil
}

var (
	Var    = obj.Make(PkgID__SUFFIX__+".Var", nil)
	Holder = struct{ Field *obj.Obj }{Field: obj.Make(PkgID__SUFFIX__+".Holder.Field", nil)}
)

func decorate__SUFFIX__(sym string, p container.DecoratorPayload, args []any) *obj.Obj {
	o := mk__SUFFIX__(sym, args)
	o.Payload = &obj.Payload{Tag: p.Tag, ID: p.ServiceID, Svc: p.Service}
	return o
}

func Decorate(p container.DecoratorPayload, args ...any) *obj.Obj  { return decorate__SUFFIX__("Decorate", p, args) }
func DecorateB(p container.DecoratorPayload, args ...any) *obj.Obj { return decorate__SUFFIX__("DecorateB", p, args) }
func DecorateC(p container.DecoratorPayload, args ...any) *obj.Obj { return decorate__SUFFIX__("DecorateC", p, args) }

// parameter functions
func Fn(args ...any) string {
	obj.Count("fn:" + PkgID__SUFFIX__ + ".Fn")
	if h := obj.Hook; h != nil {
		h("fn", PkgID__SUFFIX__+".Fn", 0)
	}
	return PkgID__SUFFIX__ + ".Fn" + show__SUFFIX__(args)
}

// show renders arguments the way they are written in the configuration: ("a", 5)
func show__SUFFIX__(args []any) string {
	s := "("
	for i, a := range args {
		if i > 0 {
			s += ", "
		}
		s += fmt.Sprintf("%#v", a)
	}
	return s + ")"
}

func FnInt(args ...any) int {
	obj.Count("fn:" + PkgID__SUFFIX__ + ".FnInt")
	return 40 + len(args)
}

// Str is a named string type; FnT has typed parameters: the arguments written in a configuration are untyped constants that
// the generated code has to convert (5 -> time.Duration / int64, 2 -> float64, "x" -> Str).
type Str string

func FnT(d time.Duration, n int64, f float64, s Str, rest ...uint) string {
	return fmt.Sprintf("%s|%d|%g|%s|%v", d, n, f, s, rest)
}

func FnE(args ...any) (any, error) {
	obj.Count("fn:" + PkgID__SUFFIX__ + ".FnE")
	if len(args) > 0 && args[0] == "fail" {
		return nil, errors.New("fixture: FnE fails")
	}
	return PkgID__SUFFIX__ + ".FnE" + show__SUFFIX__(args), nil
}
