// Package rt interprets operation scripts against generated containers and prints observations.
package rt

import (
	"bufio"
	"context"
	"encoding/json"
	"fmt"
	"os"
	"reflect"
	"sort"
	"strings"
	"sync"
	"sync/atomic"
	"time"

	"github.com/gontainer/gontainer-helpers/v3/container"
	"probe.test/obj"
)

// C is the documented interface of every generated container (docs/INTERFACE.md).
type C interface {
	Get(serviceID string) (interface{}, error)
	GetInContext(ctx context.Context, serviceID string) (interface{}, error)
	CircularDeps() error
	OverrideService(serviceID string, s container.Service)
	AddDecorator(tag string, decorator interface{}, deps ...container.Dependency)
	IsTaggedBy(serviceID string, tag string) bool
	GetTaggedBy(tag string) ([]interface{}, error)
	GetTaggedByInContext(ctx context.Context, tag string) ([]interface{}, error)
	GetParam(paramID string) (interface{}, error)
	OverrideParam(paramID string, d container.Dependency)
	HotSwap(func(container.MutableContainer))
	Root() *container.Container
}

type factory struct {
	new  func() C
	ctor map[string]any // fixture constructors by name, for OverrideService
}

var registry = map[string]factory{}

func Register(pkg string, f func() C, ctors map[string]any) {
	registry[pkg] = factory{new: f, ctor: ctors}
}

type stubEntry struct {
	typ  reflect.Type
	ctor func() any
}

var stubs = map[string]stubEntry{}

// RegisterStub registers a --stub package: its container type and constructor (which must panic).
func RegisterStub(pkg string, typ reflect.Type, ctor func() any) {
	stubs[pkg] = stubEntry{typ: typ, ctor: ctor}
}

func typeMethods(t reflect.Type) []any {
	var out []any
	for i := 0; i < t.NumMethod(); i++ {
		m := t.Method(i)
		var in, outs []string
		for j := 1; j < m.Type.NumIn(); j++ {
			in = append(in, m.Type.In(j).String())
		}
		for j := 0; j < m.Type.NumOut(); j++ {
			outs = append(outs, m.Type.Out(j).String())
		}
		out = append(out, map[string]any{"name": m.Name, "in": strings.Join(in, ","), "out": strings.Join(outs, ",")})
	}
	return out
}

// runStub: method set of the stub type, and every generated method plus the constructor must panic.
func runStub(s Script, e stubEntry) Result {
	res := Result{ID: s.ID, Pkg: s.Pkg}
	ms := typeMethods(e.typ)
	res.Res = append(res.Res, map[string]any{"methods": ms, "type": e.typ.Elem().Name(), "pkgpath": e.typ.Elem().PkgPath()})
	res.Res = append(res.Res, guard(func() map[string]any {
		v := e.ctor()
		return map[string]any{"returned": fmt.Sprintf("%T", v)}
	}))
	recv := reflect.Zero(e.typ) // (*T)(nil): generated stub methods panic before touching the receiver
	calls := map[string]any{}
	for i := 0; i < e.typ.NumMethod(); i++ {
		m := e.typ.Method(i)
		if _, own := reflect.TypeOf((*container.Container)(nil)).MethodByName(m.Name); own {
			continue
		}
		name := m.Name
		calls[name] = guard(func() map[string]any {
			in := []reflect.Value{recv}
			for j := 1; j < m.Type.NumIn(); j++ {
				in = append(in, reflect.Zero(m.Type.In(j)))
			}
			if m.Type.NumIn() == 2 && m.Type.In(1).String() == "context.Context" {
				in[1] = reflect.ValueOf(context.Background())
			}
			m.Func.Call(in)
			return map[string]any{"returned": true}
		})
	}
	res.Res = append(res.Res, map[string]any{"calls": calls})
	return res
}

type Lit struct {
	T string `json:"t"`
	V string `json:"v"`
}

type Op struct {
	Op    string            `json:"op"`
	ID    string            `json:"id,omitempty"`
	Tag   string            `json:"tag,omitempty"`
	Ctx   int               `json:"ctx,omitempty"`
	Name  string            `json:"name,omitempty"`
	Val   *Lit              `json:"val,omitempty"`
	Ctor  string            `json:"ctor,omitempty"`
	Args  []json.RawMessage `json:"args,omitempty"` // OverrideService: {"svc":"s1"} | {"t":..,"v":..} | {"param":"p"}
	Set   map[string]string `json:"set,omitempty"`
	Unset []string          `json:"unset,omitempty"`
	// concurrency
	Groups [][]Op `json:"groups,omitempty"`
	Repeat int    `json:"repeat,omitempty"`
}

type Script struct {
	ID  int    `json:"id"`
	Pkg string `json:"pkg"`
	Ops []Op   `json:"ops"`
	// Shadow: construct a second container of the same package after the first one and keep it alive
	Shadow bool `json:"shadow"`
}

type Result struct {
	ID      int              `json:"id"`
	Pkg     string           `json:"pkg"`
	Res     []map[string]any `json:"res"`
	Heap    map[string]any   `json:"heap"`
	Err     string           `json:"err,omitempty"`
	Timeout bool             `json:"timeout,omitempty"`
	Events  []map[string]any `json:"events,omitempty"`
}

func litValue(l *Lit) any {
	if l == nil {
		return nil
	}
	switch l.T {
	case "int":
		var x int
		fmt.Sscan(l.V, &x)
		return x
	case "uint64":
		var x uint64
		fmt.Sscan(l.V, &x)
		return x
	case "float64":
		var x float64
		fmt.Sscan(l.V, &x)
		return x
	case "bool":
		return l.V == "true"
	case "nil":
		return nil
	}
	return l.V
}

type runner struct {
	c    C
	f    factory
	ctxs map[int]context.Context
	cans []context.CancelFunc
	d    *obj.Describer
	mu   sync.Mutex
}

func (r *runner) isContainer(v any) bool {
	if x, ok := v.(interface{ Root() *container.Container }); ok {
		return x.Root() == r.c.Root()
	}
	return false
}

func (r *runner) ctx(i int) context.Context {
	r.mu.Lock()
	defer r.mu.Unlock()
	if c, ok := r.ctxs[i]; ok {
		return c
	}
	c, cancel := context.WithCancel(context.Background())
	r.cans = append(r.cans, cancel)
	c = container.ContextWithContainer(c, r.c)
	r.ctxs[i] = c
	return c
}

func outcome(d *obj.Describer, v any, err error) map[string]any {
	if err != nil {
		return map[string]any{"err": err.Error()}
	}
	return map[string]any{"ok": d.Value(v)}
}

func guard(f func() map[string]any) (res map[string]any) {
	defer func() {
		if p := recover(); p != nil {
			res = map[string]any{"panic": fmt.Sprint(p)}
		}
	}()
	return f()
}

func (r *runner) dep(raw json.RawMessage) container.Dependency {
	var m map[string]string
	_ = json.Unmarshal(raw, &m)
	if s, ok := m["svc"]; ok {
		return container.NewDependencyService(s)
	}
	if p, ok := m["param"]; ok {
		return container.NewDependencyParam(p)
	}
	if t, ok := m["tag"]; ok {
		return container.NewDependencyTag(t)
	}
	return container.NewDependencyValue(litValue(&Lit{T: m["t"], V: m["v"]}))
}

func methods(c any) []any {
	t := reflect.TypeOf(c)
	var out []any
	for i := 0; i < t.NumMethod(); i++ {
		m := t.Method(i)
		var in, outs []string
		for j := 1; j < m.Type.NumIn(); j++ {
			in = append(in, m.Type.In(j).String())
		}
		for j := 0; j < m.Type.NumOut(); j++ {
			outs = append(outs, m.Type.Out(j).String())
		}
		out = append(out, map[string]any{"name": m.Name, "in": strings.Join(in, ","), "out": strings.Join(outs, ",")})
	}
	return out
}

func (r *runner) exec(op Op, d *obj.Describer) map[string]any {
	return guard(func() map[string]any {
		switch op.Op {
		case "Get":
			v, err := r.c.Get(op.ID)
			return outcome(d, v, err)
		case "GetInContext":
			v, err := r.c.GetInContext(r.ctx(op.Ctx), op.ID)
			return outcome(d, v, err)
		case "GetTaggedBy":
			v, err := r.c.GetTaggedBy(op.Tag)
			if err != nil {
				return map[string]any{"err": err.Error()}
			}
			return map[string]any{"ok": d.Value([]any(v))}
		case "GetTaggedByInContext":
			v, err := r.c.GetTaggedByInContext(r.ctx(op.Ctx), op.Tag)
			if err != nil {
				return map[string]any{"err": err.Error()}
			}
			return map[string]any{"ok": d.Value([]any(v))}
		case "GetParam":
			v, err := r.c.GetParam(op.ID)
			return outcome(d, v, err)
		case "IsTaggedBy":
			return map[string]any{"ok": map[string]any{"k": "lit", "t": "bool", "v": fmt.Sprint(r.c.IsTaggedBy(op.ID, op.Tag))}}
		case "CircularDeps":
			if err := r.c.CircularDeps(); err != nil {
				return map[string]any{"err": err.Error()}
			}
			return map[string]any{"ok": map[string]any{"k": "nil"}}
		case "Getter", "GetterInContext", "MustGetter", "MustGetterInContext":
			m := reflect.ValueOf(r.c).MethodByName(op.Name)
			if !m.IsValid() {
				return map[string]any{"nomethod": op.Name}
			}
			var in []reflect.Value
			if strings.HasSuffix(op.Op, "InContext") {
				in = append(in, reflect.ValueOf(r.ctx(op.Ctx)))
			}
			out := m.Call(in)
			var v any
			if out[0].IsValid() && out[0].CanInterface() {
				v = out[0].Interface()
			}
			if len(out) == 2 && !out[1].IsNil() {
				return map[string]any{"err": out[1].Interface().(error).Error(), "zero": d.Value(v)}
			}
			return map[string]any{"ok": d.Value(v), "type": out[0].Type().String()}
		case "OverrideParam":
			r.c.OverrideParam(op.ID, container.NewDependencyValue(litValue(op.Val)))
			return map[string]any{"ok": map[string]any{"k": "nil"}}
		case "OverrideService":
			s := container.NewService()
			deps := make([]container.Dependency, len(op.Args))
			for i, a := range op.Args {
				deps[i] = r.dep(a)
			}
			fn, ok := r.f.ctor[op.Ctor]
			if !ok {
				return map[string]any{"err": "probe: unknown constructor " + op.Ctor}
			}
			s.SetConstructor(fn, deps...)
			r.c.OverrideService(op.ID, s)
			return map[string]any{"ok": map[string]any{"k": "nil"}}
		case "Methods":
			return map[string]any{"methods": methods(r.c)}
		case "Counters":
			return map[string]any{"counters": obj.Counters()}
		case "Env":
			for k, v := range op.Set {
				os.Setenv(k, v)
			}
			for _, k := range op.Unset {
				os.Unsetenv(k)
			}
			return map[string]any{"ok": map[string]any{"k": "nil"}}
		case "Par":
			return r.par(op, d)
		}
		return map[string]any{"err": "probe: unknown op " + op.Op}
	})
}

// par runs the groups concurrently (each group sequentially, `repeat` times), with a common start
// barrier; the describer is guarded by a mutex. Events are recorded through obj.Hook with one
// process-wide sequence number.
func (r *runner) par(op Op, d *obj.Describer) map[string]any {
	var seq int64
	var evMu sync.Mutex
	var events []map[string]any
	emit := func(e map[string]any) {
		evMu.Lock()
		e["seq"] = atomic.AddInt64(&seq, 1)
		events = append(events, e)
		evMu.Unlock()
	}
	obj.Hook = func(kind, name string, serial int64) {
		emit(map[string]any{"ev": kind, "name": name, "serial": serial})
	}
	defer func() { obj.Hook = nil }()
	var dmu sync.Mutex
	start := make(chan struct{})
	var wg sync.WaitGroup
	results := make([][]map[string]any, len(op.Groups))
	for g := range op.Groups {
		wg.Add(1)
		go func(g int) {
			defer wg.Done()
			<-start
			rep := op.Repeat
			if rep < 1 {
				rep = 1
			}
			for k := 0; k < rep; k++ {
				for i, o := range op.Groups[g] {
					emit(map[string]any{"ev": "op_start", "g": g, "i": i, "k": k})
					local := obj.NewDescriber(r.isContainer)
					res := r.exec(o, local)
					dmu.Lock()
					for id, b := range local.Heap {
						d.Heap[id] = b
					}
					dmu.Unlock()
					res["g"], res["i"], res["k"] = g, i, k
					emit(map[string]any{"ev": "op_return", "g": g, "i": i, "k": k})
					results[g] = append(results[g], res)
				}
			}
		}(g)
	}
	close(start)
	wg.Wait()
	sort.Slice(events, func(a, b int) bool { return events[a]["seq"].(int64) < events[b]["seq"].(int64) })
	return map[string]any{"par": results, "events": events}
}

var shadowKeep any

func runScript(s Script) Result {
	res := Result{ID: s.ID, Pkg: s.Pkg}
	if e, isStub := stubs[s.Pkg]; isStub {
		return runStub(s, e)
	}
	f, ok := registry[s.Pkg]
	if !ok {
		res.Err = "probe: package not linked: " + s.Pkg
		return res
	}
	obj.ResetCounters()
	for _, k := range []string{"VERIF_E1", "VERIF_E2"} { // every script starts from the same environment
		os.Unsetenv(k)
	}
	r := &runner{f: f, ctxs: map[int]context.Context{}}
	defer func() { shadowKeep = nil }()
	var initRes map[string]any
	initRes = guard(func() map[string]any {
		r.c = f.new()
		return nil
	})
	if initRes != nil {
		res.Err = "constructor panics: " + fmt.Sprint(initRes["panic"])
		return res
	}
	if s.Shadow { // a second, younger container of the same package stays alive while the history runs on the first
		guard(func() map[string]any {
			shadowKeep = f.new()
			return nil
		})
	}
	d := obj.NewDescriber(r.isContainer)
	for _, op := range s.Ops {
		res.Res = append(res.Res, r.exec(op, d))
	}
	for _, c := range r.cans {
		c()
	}
	res.Heap = map[string]any{}
	for k, v := range d.Heap {
		res.Heap[k] = v
	}
	return res
}

// Main reads scripts (one JSON object per line) from stdin and prints one result line per script.
func Main() {
	in := bufio.NewReaderSize(os.Stdin, 1<<20)
	out := bufio.NewWriter(os.Stdout)
	defer out.Flush()
	dec := json.NewDecoder(in)
	enc := json.NewEncoder(out)
	for {
		var s Script
		if err := dec.Decode(&s); err != nil {
			return
		}
		done := make(chan Result, 1)
		go func() { done <- runScript(s) }()
		select {
		case r := <-done:
			_ = enc.Encode(r)
		case <-time.After(20 * time.Second):
			_ = enc.Encode(Result{ID: s.ID, Pkg: s.Pkg, Timeout: true})
			out.Flush()
			os.Exit(3) // a hung operation cannot be cancelled; the harness restarts the probe after this script
		}
		out.Flush()
	}
}
