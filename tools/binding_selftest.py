#!/usr/bin/env python3
"""Corrupt-one-field exercise (DESIGN 4.5): every trace specification must accept a faithful recorded trace and reject
the same trace with one field corrupted or one event removed. Exit 0 = all trace specifications bind; 2 = one does not."""
import copy
import json
import os
import sys

sys.path.insert(0, os.path.dirname(os.path.dirname(os.path.abspath(__file__))))
from vlib import core  # noqa: E402


def hw_run(module, cfg, lines):
    r = core.run_tlc(module, cfg, workers=1, timeout=600, want_emits=False,
                     extra_files={"trace.ndjson": "\n".join(json.dumps(x) for x in lines) + "\n"})
    hw = [int(ln.strip("<>").split(",")[1]) for ln in r.raw_tail.split("\n") if ln.startswith('<<"HW"')]
    accepted = bool(hw) and hw[0] == len(lines) + 1 and not r.violation
    return accepted, (r.violation or "")[:80]


SC = {"pats": ["good1"], "defects": ["scope"], "quiet": False, "stub": False, "ignoreP": False, "ignoreS": False, "outpre": "file", "free": False}
PIPE = [{"ev": "run", "sc": SC},
        {"ev": "step", "n": "Default input", "d": 0, "st": "ok", "c": 0}, {"ev": "step", "n": "Read config", "d": 0, "st": "ok", "c": 0},
        {"ev": "step", "n": "Compile", "d": 0, "st": "ok", "c": 0},
        {"ev": "step", "n": "Scope", "d": 1, "st": "fail", "c": 2}, {"ev": "step", "n": "Circular dependencies", "d": 1, "st": "ok", "c": 0},
        {"ev": "step", "n": "Missing parameters", "d": 1, "st": "ok", "c": 0}, {"ev": "step", "n": "Missing services", "d": 1, "st": "ok", "c": 0},
        {"ev": "step", "n": "Validate output", "d": 0, "st": "fail", "c": 2}, {"ev": "errors", "n": 2},
        {"ev": "exit", "code": 1, "printed": True}, {"ev": "out", "st": "pre"}]


def mutate(tr, i, **kw):
    t = copy.deepcopy(tr)
    t[i].update(kw)
    return t


def drop(tr, i):
    return tr[:i] + tr[i + 1:]


def main():
    results = []

    def expect(name, module, cfg, lines, want):
        ok, why = hw_run(module, cfg, lines)
        results.append((name, ok == want, "accepted" if ok else "rejected " + why))
    # Pipeline
    expect("pipeline: faithful trace", "Trace_Pipeline.tla", "Trace_Pipeline.cfg", PIPE, True)
    expect("pipeline: exit code flipped", "Trace_Pipeline.tla", "Trace_Pipeline.cfg", mutate(PIPE, 10, code=0), False)
    expect("pipeline: list shorter than the reported count", "Trace_Pipeline.tla", "Trace_Pipeline.cfg", mutate(PIPE, 9, n=1), False)
    expect("pipeline: error list missing", "Trace_Pipeline.tla", "Trace_Pipeline.cfg", drop(PIPE, 9), False)
    expect("pipeline: output touched on failure", "Trace_Pipeline.tla", "Trace_Pipeline.cfg", mutate(PIPE, 11, st="new"), False)
    expect("pipeline: a rule skipped", "Trace_Pipeline.tla", "Trace_Pipeline.cfg", drop(PIPE, 5), False)
    expect("pipeline: a defect not found (scope rule passes)", "Trace_Pipeline.tla", "Trace_Pipeline.cfg",
           mutate(mutate(PIPE, 4, st="ok", c=0), 8, st="ok", c=0)[:9] + [{"ev": "exit", "code": 0, "printed": True}, {"ev": "out", "st": "new"}], False)
    # Determinism
    det = [{"ev": "run", "c": "s1", "out": "aa", "report": "r1", "exit": 0}, {"ev": "run", "c": "s1", "out": "aa", "report": "r1", "exit": 0},
           {"ev": "perm", "c": "s1", "out": "aa", "exit": 0}]
    expect("determinism: faithful", "Trace_Determinism.tla", "Trace_Determinism.cfg", det, True)
    expect("determinism: second run differs", "Trace_Determinism.tla", "Trace_Determinism.cfg", mutate(det, 1, report="r2"), False)
    expect("determinism: permuted keys change the file", "Trace_Determinism.tla", "Trace_Determinism.cfg", mutate(det, 2, out="bb"), False)
    # Conc
    conc = [{"ev": "cfg", "shared": ["A"], "contextual": ["B"], "ns": ["C"], "fns": ["F"]}, {"ev": "fn", "name": "F"}, {"ev": "ctor", "made": "A", "serial": 1},
            {"ev": "ctor", "made": "B", "serial": 2}, {"ev": "ret", "seq": 5, "ctx": 1, "insts": [["A", 1], ["B", 2]], "root": ["B", 2]},
            {"ev": "ctor", "made": "B", "serial": 3}, {"ev": "ret", "seq": 7, "ctx": 2, "insts": [["A", 1], ["B", 3]], "root": ["B", 3]},
            {"ev": "ctor", "made": "C", "serial": 4}, {"ev": "ret", "seq": 9, "ctx": 2, "insts": [["C", 4]], "root": ["C", 4]},
            {"ev": "ctor", "made": "C", "serial": 5}, {"ev": "ret", "seq": 11, "ctx": 2, "insts": [["C", 5]], "root": ["C", 5]}]
    expect("conc: faithful", "Trace_Conc.tla", "Trace_Conc.cfg", conc, True)
    expect("conc: contextual instance shared between contexts", "Trace_Conc.tla", "Trace_Conc.cfg", mutate(conc, 6, insts=[["A", 1], ["B", 2]]), False)
    expect("conc: two instances of a shared service", "Trace_Conc.tla", "Trace_Conc.cfg", mutate(conc, 6, insts=[["A", 9], ["B", 3]]), False)
    expect("conc: the same non_shared instance handed out twice", "Trace_Conc.tla", "Trace_Conc.cfg", mutate(conc, 10, insts=[["C", 4]], root=["C", 4]), False)
    expect("conc: parameter evaluated twice", "Trace_Conc.tla", "Trace_Conc.cfg", conc[:2] + [{"ev": "fn", "name": "F"}] + conc[2:], False)
    expect("conc: shared service constructed twice", "Trace_Conc.tla", "Trace_Conc.cfg", conc[:3] + [{"ev": "ctor", "made": "A", "serial": 8}] + conc[3:], False)
    bad = [r for r in results if not r[1]]
    for name, ok, what in results:
        print("%-60s %s (%s)" % (name, "as expected" if ok else "UNEXPECTED", what))
    return 2 if bad else 0


if __name__ == "__main__":
    try:
        sys.exit(main())
    except core.InfraError as e:
        print("INFRA-FAILURE: %s" % e)
        sys.exit(2)
