#!/usr/bin/env python3
"""Writes /verif/MANIFEST.json from the table below (single source of truth for what is claimed)."""
import json
import os

V = os.path.dirname(os.path.dirname(os.path.abspath(__file__)))
props = [json.loads(l) for l in open(os.path.join(V, "properties.jsonl"))]

CLAIMED = {
    "C05": dict(level="model_checking", tech="TLA+ spec (Deps.tla/Container.tla) model-checked by TLC; every enumerated configuration replayed on the real tool (model-based testing); recorded runs validated against the spec",
                text="TLC enumerates exhaustively all small dependency graphs (2-3 services, tag and decorator edges, todo placeholders) with every scope assignment, checks the design invariant ScopeRuleSound on them, and prints for each the verdict and the <shared, contextual> pairs the specification demands; each configuration is run on the tool built from /repo and the Scope diagnostics are compared. Exhaustive within the stated bounds; beyond them only sampled.",
                note="Trusted: TLC, the YAML concretiser, the report parser (attribution of the numbered error list by the printed per-rule counts), probe + fixtures for the run-time half (all histories up to length 3 of Get/GetInContext/GetTaggedBy over accepted 2-service (thorough 3-service) graphs, and the C02 build family)."),
    "C06": dict(level="model_checking", tech="TLA+ spec (Deps.tla) model-checked by TLC; every enumerated configuration replayed on the real tool",
                text="TLC enumerates every way 8 reference sites (parameter chunk single/multi/after %%, constructor argument, call argument, field, decorator argument, for %param% and @service) can point at a declared, a todo or an undeclared name (undeclared names collide with names of the other namespace), plus all declared-set variations down to no parameters at all; expected <referrer, missing> pairs come from MissingParams/MissingServices; the tool's diagnostics must name exactly those; random larger configurations (family ext); accepted configurations are compiled and no Get / GetParam may fail with 'does not exist'.",
                note="Trusted: TLC, concretiser, report parser. The run-time consequence (no 'does not exist' from an accepted container) is checked by the Container families."),
    "C07": dict(level="model_checking", tech="TLA+ spec (Deps.tla) model-checked by TLC; every enumerated digraph replayed on the real tool; reported cycles checked to be closed walks of the spec's edge relation",
                text="TLC enumerates all digraphs on 2-3 services, all 512 reference digraphs on 3 parameters, and all carry/request/decorator constellations with one tag and one or two decorators (tag named like a service); OnCycle from the specification decides accept/reject; every reported cycle must be a closed walk over the specification's edges and every service/parameter on a cycle must be shown; seeded random larger graphs (self loops, overlapping cycles, name collisions) go through the same specification (family ext); accepted configurations are compiled and must report no circular dependencies and terminate.",
                note="Trusted: TLC, concretiser, report parser, cycle-line parser."),
    "C16": dict(level="model_checking", tech="TLA+ spec (Deps.tla OutputDiag with flags) model-checked by TLC; every (configuration, flag set) replayed on the real tool and the four runs compared with the spec and with each other",
                text="For every configuration of the defect-subset family X and the reference families N/M and each of the four flag sets: accepted iff the specification leaves no non-ignored diagnostic; non-ignored error lists identical to the run without flags; ignored rule silent; output sha256 identical whenever accepted without flags. FlagsOnlyNarrow is checked by TLC on the model.",
                note="Trusted: TLC, concretiser, report parser."),
    "C01": dict(level="exploration", tech="model-generated inputs: the accepted space is enumerated by TLC from the TLA+ families (MC_Container: feature pairs, syntax forms, literal kinds, API table, tags over files, todo, import tables); sensors = gofmt, Go compiler, package initialisation, in normal and --stub mode",
                text="Every configuration the specification accepts in the listed families is generated in both modes over a pre-existing longer output file; the written file must be gofmt-stable, compile (normal: linked with the pinned runtime and the fixture universe; stub: -tags gontainerstub), and the probe must start (package init) and construct the container. The typing judgment is the compiler's; the specification contributes the enumerated accepted space.",
                note="Trusted: Go toolchain, fixture universe (every named symbol exists). Not a proof: coverage is the enumerated families."),
    "C14": dict(level="model_checking", tech="TLA+ spec of reference resolution (Imports.tla: whole-first-segment alias substitution) enumerated by TLC over alias tables x reference forms; each configuration compiled and executed; self-identifying fixture symbols and the import block compared",
                text="Alias tables (single entries and chosen pairs: prefix-related aliases, aliases equal to real first path segments, aliases named like the packages the generated code imports) x reference forms (none, \".\", alias, alias/sub-path, full path, quoted/unquoted) in constructor, type, value, !value, decorator and function positions over ten fixture packages (prefix-related paths, equal last elements, illegal identifier characters, foreign modules).",
                note="Trusted: as C02. Type positions are checked by compilation only."),
    "C17": dict(level="exploration", tech="model-generated inputs (same TLA+ families as C01 plus rejected configurations of MC_Deps); pairwise comparison of the two modes: verdict, build constraint, compilation against a types-only fixture universe, reflected API, panics",
                text="For every enumerated configuration both modes must agree on accept/reject; for accepted ones the stub must carry the gontainerstub constraint, build against fixture packages that contain only types, expose the same package / type / constructor / exported method set as the normal output (reflection), and its constructor and every generated method must panic.",
                note="Trusted: Go toolchain, reflection, the types-only fixture copy."),
    "C03": dict(level="model_checking", tech="TLA+ spec of the chunker as a scanner and of the token-factory chain (Pattern.tla), every symbol string up to the bound enumerated by TLC; each instantiated with concrete runes and replayed: build-time verdict per string, run-time value via the compiled container",
                text="Exhaustive over all strings up to length 5 (thorough 6) over the classes %, letter, digit, _, ./-, (, ), quote, space, other rune (newline in thorough); DoublingEscapes, OddRejected and Tiling are checked by TLC; the tool must reject exactly the model's reject set (keys named in the diagnostics, suspects re-run alone) and GetParam / constructor arguments must equal the value assembled from the model's chunk structure (single chunk keeps the type, several chunks concatenate the documented casts); env/envInt decision table, failing functions naming the token, todo messages.",
                note="Trusted: TLC, instantiation of symbol classes, probe. Function arguments that are not simple Go literals are Unconstrained."),
    "C08": dict(level="exploration", tech="recorded runs (fresh processes, varying environment / cwd / key order) validated as a trace by TLC against Determinism.tla (a run is enabled only if it equals the scenario's first run)",
                text="Scenarios sampled from the TLC families plus hand-made ones with >= 2 entries at every place the code ranges over a map; each run 10 (thorough 30) times in fresh processes and 4 (10) times with permuted mapping keys; statistical per site (Go's map order cannot be scheduled), exhaustive over the sites known from reading the code.",
                note="Trusted: sha256, process isolation. Escape probability per visited site about 2^(1-R)."),
    "C09": dict(level="model_checking", tech="TLA+ spec of field-wise merge (Merge.tla) with associativity / identity / split invariance checked by TLC; file sets enumerated by TLC replayed: tool output on the files vs tool output on the model's merged single file, byte for byte",
                text="Every attribute overridden by a later file (both orders, one and two attributes, three files, repeated identical entries, the empty file), rich configurations cut into ordered pieces over seven layouts of files and -i patterns where glob order and lexical order of cleaned paths differ; 13824 triples for associativity on the model.",
                note="Trusted: TLC, concretiser (also writes explicit empty collections)."),
    "C11": dict(level="model_checking", tech="TLA+ recognisers per grammar position (Grammar.tla) written from the documentation; every symbol string up to the bound enumerated by TLC and placed in every YAML site of its position; flagged keys compared; plus subsets of simultaneous defects",
                text="Eight positions (name, ident, import, func, type, value, decorator tag, argument forms) x 23 YAML sites, exhaustive up to length 4 (thorough 5-6) over position-specific alphabets; candidates disagreeing in a batch are re-run alone; all subsets of up to 3 of 21 structural defect kinds (same key, different keys, different compile stages) must be reported completely; todo exemption; about 3000 replacements of a node of a complete document by a YAML node of an incompatible kind (MC_Confusion) must be rejected.",
                note="Trusted: TLC, one concrete instantiation per symbol class. Getter-specific rules are decided by C13's family."),
    "C02": dict(level="model_checking", tech="TLA+ run-time semantics (Container.tla: Build = cache lookup, creation, fields, calls/withers, decorators, cache store) explored by TLC; every history replayed on the compiled generated container linked with the real runtime; object graphs compared up to identity renaming",
                text="TLC enumerates all choice vectors differing from a base service in at most two of: creation method (constructor, local constructor, error-returning constructor, by-value constructor, package variable, &composite, composite, type-only value/pointer, todo), two argument positions x argument form (int, uint64, float, bool, null, plain/padded strings, strings that look like other literals, @service, !tagged, !value, $gontainer, %param% of each type, multi-chunk, %%, function call, failing), fields (order, unexported), call/wither sequences, scope, decorators, getter; the expected object graph is computed by Container.tla; the probe reports the real graph. Plus families forms (every documented syntax form), lits (every literal type) and ext (seeded random configurations of 5-8 services with 25-operation histories over three contexts).",
                note="Trusted: TLC, concretiser, probe + fixture universe, canonicalisation of identities. Configurations the tool rejects / whose output does not compile are unobservable here (C11/C01)."),
    "C04": dict(level="model_checking", tech="TLA+ run-time semantics (Container.tla TaggedOrder/Decorate) + Merge.tla, explored by TLC; every configuration (split over 1-3 files) replayed on the compiled container",
                text="Exhaustive over three tagged services x priority assignments (absent, negative, equal, large) x second-tag carry bits x eight decorator sequences x 1/2/3-file splits; compares !tagged slices, GetTaggedBy order, decorator chains with payload <tag, service, object> and declared arguments; TaggedSorted and SplitInvariant are checked by TLC on the model.",
                note="Trusted: as C02."),
    "C12": dict(level="exploration", tech="Pipeline.tla with a free environment as the protocol every execution must follow; node-kind confusions enumerated by TLC (MC_Confusion), stress inputs and seeded blind mutation run in-process with recover() and a watchdog; one trace per distinct execution signature validated by TLC",
                text="25 000 (thorough 400 000) executions: every node of a complete base document replaced by each of 24 YAML node kinds (singly, and in pairs for a subset), deep nesting, very long names and patterns, complete dependency digraphs, odd directory entries (dangling / self-referencing symlinks, directories, NUL bytes, big files), byte- and token-level mutation of a corpus of valid and invalid configurations incl. the repository's own, arbitrary glob patterns and flags; a panic, a killed process or a watchdog hit is a violation; every distinct signature must be a behaviour of Pipeline (exit 0/1, count = list length, file contract).",
                note="No coverage guidance (a different technique); this is exploration, not absence of panics. Trusted: the in-process driver's recover()/watchdog."),
    "C13": dict(level="model_checking", tech="TLA+ spec of the API surface (API.tla) + Container.tla for getter results, enumerated by TLC; verdict, reflected method set with signatures, names and the result of calling every generated method compared on the compiled container",
                text="Exhaustive over getter (incl. every container method name, the embedded field, Must-prefixed, InContext-suffixed, duplicates) x type form x must_getter x default_must_getter x independent meta names x role of a second service; NoCollision is checked by TLC on the model.",
                note="Trusted: as C02; reflection in the probe reads the method set of the generated type."),
    "C15": dict(level="model_checking", tech="TLA+ run-time semantics with mutable definitions (Container.tla Apply: OverrideParam/OverrideService, lazy cached parameters) explored by TLC over all short histories; each replayed on the compiled container",
                text="32 configurations (every subset of two parameters and two services marked todo, todo services with inert attributes, an alias parameter, a counted function parameter) x every history of length 3 (thorough 4) over nine operations; results, documented error texts, object graphs and function invocation counters (zero after construction) are compared; TodoFails and LazyParams are checked by TLC on the model.",
                note="Trusted: as C02."),
    "C10": dict(level="fault_enumeration", tech="TLA+ state machine of the build pipeline (Pipeline.tla) model-checked by TLC over fault/defect/flag/output-path scenarios; every scenario replayed on the real command; every run's own step report validated as a trace against the spec (Trace_Pipeline)",
                text="TLC explores Pipeline.tla over scenarios = outcome per -i pattern (no match, invalid glob, one/two good files, directory, unparsable YAML, wrong node kind, same file twice) x defect-class sets x flags x state of the -o path (absent, existing, missing directory, is a directory, below a regular file), checking ExitIff, Untouched, CountMatch, OneFailLast, InOrder, WriteLast on all states; TLAPS additionally proves (35 obligations, re-checked on every run) that the contract is an inductive invariant for every scenario and error bound. Each scenario is realised in a private directory and run in-process (a sample as a real process); exit status, failing step, rule statuses, numbered-list length and a before/after digest of the whole directory are compared; all runs are validated by TLC as traces.",
                note="Trusted: TLC, scenario realisation, report parser, directory snapshots. Faults that need a non-root user or a full disk are not injected."),
    "C18": dict(level="model_checking", tech="TLA+ spec of the gate (Version.tla) enumerated by TLC over the (B, V) grid; every pair replayed in-process and, for v-prefixed / non-semver builds, on binaries linked with -X main.version=B",
                text="Exhaustive grid of majors x minors x patches x {release, prerelease, +build, both} for B and V, non-semver builds, v-prefixed builds, absent and ten malformed V forms; verdict class (accept / version diagnostic / parse error) must equal Gate(B, V). PatchIrrelevant is checked by TLC on the model.",
                note="Trusted: TLC, the rendering of version records as strings, classification of the tool's verdict by failing step."),
    "C19": dict(level="other", tech="recorded build/regenerate/install generations validated as a trace by TLC against SelfHost.tla (invariants Fixpoint, Functional)",
                text="One input, nothing to enumerate: two (thorough: three) generations of build -> regenerate -> install on a scratch copy of the working tree, digests compared modulo the version comment line; the trace is accepted by TLC only if every regeneration equals the checked-in file.",
                note="Trusted: the Go toolchain, sha256, the Makefile's self-compile patterns."),
    "C20": dict(level="model_checking", tech="TLA+ model of the runtime's critical sections as used by generated code (ContainerConc.tla) model-checked over all interleavings of small instances; recorded concurrent runs of the real generated container (race detector on, events numbered under the per-entry lock) validated by TLC against Trace_Conc.tla",
                text="Design: ConstructedOnce, EvaluatedOnce, ContextIsolation, SharedAgreed, MutualExclusion, NoDeadlock over every interleaving of 2-3 goroutines on a shared / contextual / non_shared chain with a parameter; a parameter cycle deadlocks (negative control). Code: model-enumerated graphs x scopes and hand-made configurations (multi-chunk patterns, env functions, derived contextual scope, tags, decorators, getters) x 4/16(/64) goroutines x repeated runs under -race; a race report or a rejected trace is a violation. Small runs (2-3 goroutines, 2 operations each) are additionally validated against the fine-grained actions of ContainerConc with silent steps (Trace_ContainerConc): TLC must find an interleaving that explains the observed order of constructions and returns and the observed instance identities.",
                note="Interleavings of the real program are sampled, not enumerated; the locking lives in the external runtime and is modelled, not verified."),
}

NOT_YET = "check not built yet in this round (planned in DESIGN.md section 6); will be claimed once its TLA+ family and harness exist"

checks = []
na = []
for p in props:
    pid = p["id"]
    if pid in CLAIMED:
        c = CLAIMED[pid]
        checks.append({
            "property_id": pid,
            "quick_cmd": "./run %s quick" % pid,
            "thorough_cmd": "./run %s thorough" % pid,
            "evidence_file": "/verif/evidence/%s.json" % pid,
            "replay_cmd_template": "cat {path}/violations.json",
            "engine": "tlc+harness",
            "level_claimed": {"category": c["level"], "text": c["text"], "design_ref": "DESIGN.md section 6, %s" % pid},
            "level_note": c["note"],
            "technique": c["tech"],
        })
    else:
        na.append({"property_id": pid, "reason": NOT_YET})

m = {
    "version": 1,
    "setup_cmd": "./tools/setup.sh",
    "hooks": {"guard": "verif", "enable": "no hooks are compiled into /repo; the in-process driver is added with `go build -overlay` (adds internal/verifdrive/main.go, replaces nothing)",
              "baseline_off_cmd": "cd /repo && go build ./... && go test -vet=off -count=1 ./...",
              "source_commits": [], "add_only": True},
    "engines": [{"name": "tlc+harness", "path": "/verif/run", "serves_properties": sorted(CLAIMED),
                 "kind_free_text": "TLA+ specification in /verif/spec checked with TLC; TLC's states are replayed on the tool built from /repo (vlib/), recorded runs are validated by TLC trace specifications"}],
    "checks": checks,
    "not_applicable": na,
    "notes": "See DESIGN.md. Exit 2 from a check means infrastructure failure, never a verdict.",
}
json.dump(m, open(os.path.join(V, "MANIFEST.json"), "w"), indent=1)
print("claimed:", sorted(CLAIMED), "not claimed:", [x["property_id"] for x in na])
