#!/usr/bin/env python3
"""mkseedtable.py <round tag, e.g. r3> : print the DESIGN.md table of the seeded changes of one round from seeded/*/meta.json"""
import glob
import json
import sys

tag = sys.argv[1]
rows, strengthened = [], []
for m in sorted(glob.glob("/verif/seeded/*-%s-m*/meta.json" % tag)):
    j = json.load(open(m))
    rows.append("| %s | %s | %s |" % (j["id"], j["needs_to_manifest"].replace("|", "\\|"), j["detected"].replace("|", "\\|")))
    if j.get("strengthening"):
        strengthened.append("%s: %s" % (j["id"], j["strengthening"]))
print("| change | needs, to manifest | command → how it shows |\n|---|---|---|")
print("\n".join(rows))
print()
print("First missed, caught after strengthening (%d of %d):" % (len(strengthened), len(rows)))
for x in strengthened:
    print("* " + x)
