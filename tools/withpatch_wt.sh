#!/bin/bash
# usage: withpatch_wt.sh <patch.diff> <command...> : apply to a private scratch worktree of /repo HEAD, run the command with
# VERIF_REPO pointing at it (so /repo itself is never touched), remove the worktree.
set -u
P=$1; shift
WT=$(mktemp -d /tmp/wt-XXXXXX); rmdir $WT
git -C /repo worktree add -q --detach $WT HEAD || exit 9
P=$(readlink -f "$P"); if ! git -C $WT apply "$P"; then echo "PATCH DOES NOT APPLY"; git -C /repo worktree remove --force $WT; exit 9; fi
( cd /verif && VERIF_REPO=$WT VERIF_EVIDENCE_DIR=/tmp/wt-evidence VERIF_REPLAY_DIR=/tmp/wt-replays "$@" ); rc=$?
git -C /repo worktree remove --force $WT
exit $rc
