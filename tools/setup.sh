#!/bin/bash
# Offline setup: warm the Go build cache for the tool, the in-process driver and the probe fixtures;
# run the self-tests of the harness (concretiser round trip, name order, report parser).
set -e
export GOFLAGS=-mod=mod GOPROXY=off GOSUMDB=off GOTOOLCHAIN=local
cd /repo && go build ./... 
cd /verif && python3 -m vlib.selftest
./tools/binding_selftest.py > /dev/null || { echo "binding self-test failed"; exit 2; }
