#!/bin/bash
# usage: withpatch.sh <patch.diff> <command...>   — apply to /repo, run, always revert
set -u
P=$1; shift
git -C /repo apply "$P" || { echo "PATCH DOES NOT APPLY"; exit 9; }
( cd /verif && "$@" ); rc=$?
git -C /repo checkout -- . ; git -C /repo clean -fdq
exit $rc
