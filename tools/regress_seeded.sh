#!/bin/bash
# usage: regress_seeded.sh [parallel streams] [glob of seeded ids]  -> /tmp/regress-seeded.log
# Re-runs, for every kept seeded change, the command recorded in its meta.json against a scratch worktree with the change applied
# (never /repo itself) and records whether it still ends with exit 1 and a VIOLATION line.
P=${1:-2}; G=${2:-*}
LOG=/tmp/regress-seeded.log; : > $LOG
one() {
  d=$1; id=$(basename $d)
  cmd=$(python3 -c "import json,sys; print(json.load(open('$d/meta.json'))['ran'].split(';')[0].split(' -> ')[0].strip())")
  patch=$d/patch.diff
  out=$(cd /verif && VERIF_SCRATCH_TAG=$id ./tools/withpatch_wt.sh $patch $cmd 2>&1); rc=$?
  vio=$(echo "$out" | grep -c '^VIOLATION')
  echo "$id cmd=[$cmd] rc=$rc vio=$vio" >> /tmp/regress-seeded.log
}
export -f one
ls -d /verif/seeded/$G | grep -v benign | xargs -P $P -I{} bash -c 'one {}'
echo DONE >> $LOG
