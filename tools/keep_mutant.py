#!/usr/bin/env python3
"""keep_mutant.py <property> <src dir> <name> '<needs>' '<ran/detected json>' : copy a confirmed seeded change into /verif/seeded"""
import json, os, shutil, sys
prop, src, name, needs, extra = sys.argv[1:6]
dst = os.path.join("/verif/seeded", name)
os.makedirs(dst, exist_ok=True)
for f in os.listdir(src):
    p = os.path.join(src, f)
    if os.path.isfile(p) and os.path.getsize(p) < 2_000_000:
        shutil.copy(p, dst)
meta = {"id": name, "breaks_property": prop, "needs_to_manifest": needs}
meta.update(json.loads(extra))
json.dump(meta, open(os.path.join(dst, "meta.json"), "w"), indent=1)
print("kept", dst)
