#!/bin/bash
# usage: validate_mutant.sh <dir with patch.diff + demo.sh> -> prints a JSON line with what was confirmed
# Works in a private scratch worktree of /repo's HEAD which is removed afterwards.
set -u
export GOFLAGS=-mod=mod GOPROXY=off GOSUMDB=off GOTOOLCHAIN=local
M=$1; PATCH=${2:-$M/patch.diff}
WT=$(mktemp -d /tmp/mutval-XXXXXX); rmdir $WT
git -C /repo worktree add -q --detach $WT HEAD || exit 9
res() { echo "{\"dir\":\"$M\",\"applies\":$1,\"builds\":$2,\"tests_pass\":$3,\"demo_clean\":$4,\"demo_patched\":$5}"; }
( cd $WT && bash $M/demo.sh $WT >/dev/null 2>&1 ); DC=$?
if ! git -C $WT apply $PATCH 2>/dev/null; then res false null null $DC null; git -C /repo worktree remove --force $WT; exit 0; fi
( cd $WT && go build ./... >/dev/null 2>&1 ); B=$?
( cd $WT && go test -vet=off -count=1 ./... >/dev/null 2>&1 ); T=$?
( cd $WT && bash $M/demo.sh $WT >/dev/null 2>&1 ); DP=$?
res true $([ $B = 0 ] && echo true || echo false) $([ $T = 0 ] && echo true || echo false) $DC $DP
git -C /repo worktree remove --force $WT
