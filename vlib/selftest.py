"""Self-tests of the harness itself (not of gontainer). Failure = exit 2 (infrastructure)."""
import re
import sys

from . import core


def names_sorted():
    txt = open(core.SPEC + "/Names.tla").read()
    body = txt[txt.index("NameSeq == <<") + len("NameSeq == <<"):txt.index(">>", txt.index("NameSeq == <<"))]
    names = re.findall(r'"([^"]*)"', body)
    assert names == sorted(names, key=lambda s: s.encode()), "NameSeq is not in Go string order"
    assert len(set(names)) == len(names)


def report_parser():
    txt = ("Compile·····\nCompile END·····[✓]\nChecking the output····\n  Scopes····\n  Scopes END····[⨉] (1 error)\n"
           "  Cycles····\n  Cycles END····[✓]\n  Params····\n  Params END····[✓]\n"
           "  Missing services····\n  Missing services END····ignored\nChecking the output END····[⨉] (1 error)\nProblems:\n1. a\n   second line\n")
    r = core.Report(txt)
    # steps are identified by position, whatever they are called
    assert r.step("Scope")["status"] == "fail" and r.step("Scope")["count"] == 1 and r.step("Scope")["raw_name"] == "Scopes"
    assert r.step("Missing services")["status"] == "ignored"
    assert r.errors == ["a\n   second line"], r.errors
    assert r.has_errors_header
    assert r.sub_errors()["Scope"] == ["a\n   second line"]
    assert core.mentions('"s1": service', "s1") and not core.mentions('"s10": service', "s1")


def main():
    names_sorted()
    report_parser()
    print("selftest ok")


if __name__ == "__main__":
    try:
        main()
    except AssertionError as e:
        print("SELFTEST FAILED: %s" % e, file=sys.stderr)
        sys.exit(2)
