"""Self-tests of the harness itself (not of gontainer). Failure = exit 2 (infrastructure)."""
import re
import sys

from . import core


def names_sorted():
    txt = open(core.SPEC + "/Names.tla").read()
    body = txt[txt.index("NameSeq == <<") + len("NameSeq == <<"):txt.index(">>", txt.index("NameSeq == <<"))]
    names = re.findall(r'"([^"]*)"', body)
    assert names == sorted(names, key=lambda s: s.encode()), "NameSeq is not in Go string order"
    assert len(set(names)) == len(names)


def report_parser():
    txt = ("Compile·····\nCompile END·····[✓]\nValidate output····\n  Scope····\n  Scope END····[⨉] (1 error)\n"
           "  Missing services····\n  Missing services END····ignored\nValidate output END····[⨉] (1 error)\nErrors:\n1. a\n")
    r = core.Report(txt)
    assert r.step("Scope")["status"] == "fail" and r.step("Scope")["count"] == 1
    assert r.step("Missing services")["status"] == "ignored"
    assert r.errors == ["a"], r.errors
    assert r.sub_errors()["Scope"] == ["a"]
    assert core.mentions('"s1": service', "s1") and not core.mentions('"s10": service', "s1")


def main():
    names_sorted()
    report_parser()
    print("selftest ok")


if __name__ == "__main__":
    try:
        main()
    except AssertionError as e:
        print("SELFTEST FAILED: %s" % e, file=sys.stderr)
        sys.exit(2)
