"""Core plumbing shared by all checks: scratch space, tool/driver build, driver pool,
TLC runner, report/diagnostic projections, evidence, known findings.

Exit codes of a check:  0 = property held on everything explored
                        1 = violation (prints `VIOLATION property=<id> replay=<path>`)
                        2 = infrastructure failure (never a verdict)
"""
import atexit
import hashlib
import json
import os
import queue
import re
import shutil
import subprocess
import sys
import tempfile
import threading
import time

VERIF = os.path.dirname(os.path.dirname(os.path.abspath(__file__)))
REPO = os.environ.get("VERIF_REPO", "/repo")
SPEC = os.path.join(VERIF, "spec")
NCPU = max(2, min(16, os.cpu_count() or 4))

GOENV = dict(os.environ)
GOENV.update({"GOFLAGS": "-mod=mod", "GOPROXY": "off", "GOSUMDB": "off", "GOTOOLCHAIN": "local"})


class InfraError(Exception):
    """Anything that prevents a verdict (exit 2)."""


# --------------------------------------------------------------------------- scratch

_scratch_root = None


def scratch():
    global _scratch_root
    if _scratch_root is None:
        base = os.environ.get("VERIF_SCRATCH_BASE") or tempfile.gettempdir()
        _scratch_root = tempfile.mkdtemp(prefix="verif-", dir=base)
        atexit.register(lambda: shutil.rmtree(_scratch_root, ignore_errors=True))
    return _scratch_root


def subdir(name):
    p = os.path.join(scratch(), name)
    os.makedirs(p, exist_ok=True)
    return p


def seed():
    try:
        return int(os.environ.get("VERIF_SEED", "1"))
    except ValueError:
        return 1


# --------------------------------------------------------------------------- building

def sh(cmd, cwd=None, env=None, timeout=1200, check=True, input=None):
    p = subprocess.run(cmd, cwd=cwd, env=env or GOENV, timeout=timeout, input=input,
                       stdout=subprocess.PIPE, stderr=subprocess.STDOUT, text=True)
    if check and p.returncode != 0:
        raise InfraError("command failed (%d): %s\n%s" % (p.returncode, " ".join(cmd), p.stdout[-4000:]))
    return p


_built = {}


def build_driver():
    """In-process driver, added to the module with -overlay (adds a file, replaces nothing)."""
    if "drive" in _built:
        return _built["drive"]
    d = subdir("bin")
    ov = os.path.join(d, "overlay.json")
    with open(ov, "w") as f:
        json.dump({"Replace": {os.path.join(REPO, "internal/verifdrive/main.go"):
                               os.path.join(VERIF, "harness/drive/main.go")}}, f)
    out = os.path.join(d, "drive")
    sh(["go", "build", "-overlay", ov, "-o", out, "./internal/verifdrive"], cwd=REPO)
    _built["drive"] = out
    return out


def build_tool(ldflags_version=None, name="gontainer"):
    key = "tool:%s" % ldflags_version
    if key in _built:
        return _built[key]
    d = subdir("bin")
    out = os.path.join(d, name + ("" if ldflags_version is None else "-" + re.sub(r"[^A-Za-z0-9.]", "_", ldflags_version)))
    cmd = ["go", "build", "-o", out]
    if ldflags_version is not None:
        cmd += ["-ldflags", "-X main.version=%s" % ldflags_version]
    cmd += ["."]
    sh(cmd, cwd=REPO)
    _built[key] = out
    return out


# --------------------------------------------------------------------------- driver pool

class Driver:
    def __init__(self, path):
        self.path = path
        self.p = None
        self.start()

    def start(self):
        self.p = subprocess.Popen([self.path], stdin=subprocess.PIPE, stdout=subprocess.PIPE,
                                  stderr=subprocess.DEVNULL, text=True, bufsize=1,
                                  env=dict(os.environ, NO_COLOR="1"))

    def run(self, job):
        if self.p.poll() is not None:
            self.start()
        try:
            self.p.stdin.write(json.dumps(job) + "\n")
            self.p.stdin.flush()
            line = self.p.stdout.readline()
        except (BrokenPipeError, OSError):
            line = ""
        if not line:
            rc = self.p.wait()
            self.start()
            # the driver died: crash (fatal error / os.Exit in the tool) or hang (exit 3)
            return {"id": job.get("id"), "exit": 3 if rc == 3 else 5, "stdout": "", "stderr": "",
                    "died": rc, "pre": {"kind": "?"}, "post": {"kind": "?"}}
        return json.loads(line)

    def close(self):
        try:
            self.p.stdin.close()
            self.p.wait(timeout=5)
        except Exception:
            self.p.kill()


class DriverPool:
    def __init__(self, n=None):
        path = build_driver()
        self.n = n or NCPU
        self.drivers = [Driver(path) for _ in range(self.n)]

    def run_all(self, jobs, progress=None):
        """jobs: list of dicts; returns results in the same order."""
        res = [None] * len(jobs)
        q = queue.Queue()
        for i, j in enumerate(jobs):
            q.put((i, j))

        def worker(d):
            while True:
                try:
                    i, j = q.get_nowait()
                except queue.Empty:
                    return
                res[i] = d.run(j)

        ts = [threading.Thread(target=worker, args=(d,)) for d in self.drivers]
        for t in ts:
            t.start()
        for t in ts:
            t.join()
        return res

    def close(self):
        for d in self.drivers:
            d.close()


# --------------------------------------------------------------------------- TLC

TLC_JAR_CP = "/opt/veriftools/tla/tla2tools.jar:/opt/veriftools/tla/CommunityModules-deps.jar"


class TLCResult:
    def __init__(self):
        self.states = 0          # distinct states
        self.generated = 0
        self.emitted = []        # parsed JSON objects printed by the spec
        self.ok = False
        self.violation = None    # text of an invariant/property violation reported by TLC
        self.raw_tail = ""
        self.wall = 0.0
        self.coverage_zero = []


_emit_re = re.compile(r'^<<"ST", (".*")>>$')


def run_tlc(module, cfg, consts=None, workers=None, timeout=900, extra_files=None, simulate=None,
            java_opts=None, want_emits=True, on_emit=None, deadlock=False):
    """Copy /verif/spec to scratch, optionally write MC constants module, run TLC, parse output.

    consts: dict name -> TLA+ expression text, written into module `<module>_consts.tla`? No:
    we pass them by generating a cfg-side overriding module; simpler: `extra_files` maps file name
    to content, written into the scratch copy (used for generated constant modules and traces).
    """
    d = tempfile.mkdtemp(prefix="tlc-", dir=scratch())
    for f in os.listdir(SPEC):
        if f.endswith((".tla", ".cfg")):
            shutil.copy(os.path.join(SPEC, f), d)
    for name, content in (extra_files or {}).items():
        with open(os.path.join(d, name), "w") as fh:
            fh.write(content)
    cmd = ["java", "-XX:+UseParallelGC", "-Xss64m"]
    cmd += (java_opts or [])
    cmd += ["-cp", TLC_JAR_CP, "tlc2.TLC", "-metadir", os.path.join(d, "md"),
            "-workers", str(workers or min(8, NCPU)), "-config", cfg]
    if not deadlock:
        cmd += ["-deadlock"]
    if simulate:
        cmd += ["-simulate", simulate]
    cmd += [module]
    r = TLCResult()
    t0 = time.time()
    env = dict(os.environ)
    env.pop("JAVA_TOOL_OPTIONS", None)
    try:
        p = subprocess.Popen(cmd, cwd=d, stdout=subprocess.PIPE, stderr=subprocess.STDOUT, text=True, env=env)
    except OSError as e:
        raise InfraError("cannot start TLC: %s" % e)
    tail = []
    killed = []

    def killer():
        killed.append(1)
        p.kill()
    timer = threading.Timer(timeout, killer)
    timer.start()
    try:
        for line in p.stdout:
            line = line.rstrip("\n")
            m = _emit_re.match(line)
            if m:
                try:
                    obj = json.loads(json.loads(m.group(1)))
                except Exception as e:  # pragma: no cover
                    raise InfraError("cannot parse TLC emit: %s: %s" % (e, line[:300]))
                if on_emit:
                    on_emit(obj)
                elif want_emits:
                    r.emitted.append(obj)
                continue
            if line.startswith('<<"ST"'):
                raise InfraError("garbled TLC emit line (interleaved output?): %s" % line[:200])
            tail.append(line)
            if len(tail) > 400:
                del tail[:200]
            m2 = re.search(r"(\d+) states generated, (\d+) distinct states found", line)
            if m2:
                r.generated, r.states = int(m2.group(1)), int(m2.group(2))
            if "Model checking completed. No error has been found." in line or \
               re.search(r"Finished in", line):
                pass
            if line.startswith("Error:") and r.violation is None:
                r.violation = line
    except BaseException:
        p.kill()
        raise
    finally:
        timer.cancel()
    rc = p.wait()
    r.wall = time.time() - t0
    r.raw_tail = "\n".join(tail[-120:])
    if killed:
        raise InfraError("TLC timeout after %ds on %s/%s" % (timeout, module, cfg))
    joined = "\n".join(tail)
    r.ok = ("No error has been found" in joined) or (simulate and rc == 0)
    if not r.ok and r.violation is None:
        raise InfraError("TLC failed on %s/%s (rc=%d):\n%s" % (module, cfg, rc, r.raw_tail[-3000:]))
    r.dir = d
    return r


def check_tlc_error(r, what):
    """an error other than a violated invariant / property is a broken specification or harness: infrastructure"""
    if r.violation and not re.search(r"Invariant \S+ is violated|is violated|Deadlock reached", r.violation):
        raise InfraError("TLC error while %s (not a verdict):\n%s" % (what, r.raw_tail[-2500:]))


def tla_str(s):
    return '"' + s.replace("\\", "\\\\").replace('"', '\\"') + '"'


def to_tla(v):
    """Python value -> TLA+ expression (dict -> record/function with string keys, list -> sequence)."""
    if isinstance(v, bool):
        return "TRUE" if v else "FALSE"
    if isinstance(v, int):
        return str(v)
    if isinstance(v, str):
        return tla_str(v)
    if isinstance(v, (list, tuple)):
        return "<<" + ", ".join(to_tla(x) for x in v) + ">>"
    if isinstance(v, (set, frozenset)):
        return "{" + ", ".join(to_tla(x) for x in sorted(v)) + "}"
    if isinstance(v, dict):
        if not v:
            return "<<>>"
        return "(" + " @@ ".join("%s :> %s" % (tla_str(k), to_tla(x)) for k, x in v.items()) + ")"
    raise TypeError(type(v))


# --------------------------------------------------------------------------- report projection

END_RE = re.compile(r"^(?P<indent>\s*)(?P<name>.+?) END·+(?P<mark>\[✓\]|\[⨉\]|ignored)(?: \((?P<n>\d+) errors?\))?\s*$")
START_RE = re.compile(r"^(?P<indent>\s*)(?P<name>[^·]+?)·+\s*$")
ERR_RE = re.compile(r"^(\d+)\. (.*)$")


CANON_TOP = ["Default input", "Read config", "Compile", "Validate output", "Generate code"]
CANON_RULES = ["Scope", "Circular dependencies", "Missing parameters", "Missing services"]


class Report:
    """Structured view of the tool's stdout: steps with status and counts, numbered error list.
    Steps are identified by POSITION (k-th top-level step, j-th rule of the validation step); their printed names are
    kept as raw_name only, so that renaming a step is not mistaken for a change of behaviour."""

    def __init__(self, text):
        self.text = text
        self.steps = []      # list of dict(name, depth, status, count)
        self.started = []
        self.errors = []     # list of strings (the numbered list, continuation lines joined)
        self.has_errors_header = False
        lines = text.split("\n")
        last_end = -1
        for i, line in enumerate(lines):
            if END_RE.match(line):
                last_end = i
        # the numbered list: the first "1. " line after the last END line (the line before it is the header)
        first_err = None
        for i in range(last_end + 1, len(lines)):
            if lines[i].startswith("1. "):
                first_err = i
                break
        body_end = first_err if first_err is not None else len(lines)
        for line in lines[:body_end]:
            m = END_RE.match(line)
            if m:
                st = {"[✓]": "ok", "[⨉]": "fail", "ignored": "ignored"}[m.group("mark")]
                self.steps.append({"name": m.group("name").strip(), "depth": len(m.group("indent")) // 2,
                                   "status": st, "count": int(m.group("n")) if m.group("n") else 0})
                continue
            m = START_RE.match(line)
            if m:
                self.started.append(m.group("name").strip())
        if first_err is not None:
            self.has_errors_header = True
            for line in lines[first_err:]:
                m = ERR_RE.match(line)
                if m and int(m.group(1)) == len(self.errors) + 1:
                    self.errors.append(m.group(2))
                elif self.errors and line != "":
                    self.errors[-1] += "\n" + line
        # canonical names by position
        tops = [s for s in self.steps if s["depth"] == 0]
        rules = [s for s in self.steps if s["depth"] == 1]
        if len(tops) <= len(CANON_TOP) and len(rules) <= len(CANON_RULES):
            for i, s_ in enumerate(tops):
                s_["raw_name"], s_["name"] = s_["name"], CANON_TOP[i]
            for i, s_ in enumerate(rules):
                s_["raw_name"], s_["name"] = s_["name"], CANON_RULES[i]

    def step(self, name):
        for s in self.steps:
            if s["name"] == name:
                return s
        return None

    def top(self):
        return [s for s in self.steps if s["depth"] == 0]

    def failing_top(self):
        f = [s for s in self.top() if s["status"] == "fail"]
        return f[0] if f else None

    def sub_errors(self, parent="Validate output"):
        """Split the numbered list among the sub-steps of the amalgamated step by reported counts.
        Returns dict name -> list of error strings, or None if counts are inconsistent."""
        subs = [s for s in self.steps if s["depth"] == 1]
        out, i = {}, 0
        for s in subs:
            n = s["count"] if s["status"] == "fail" else 0
            out[s["name"]] = self.errors[i:i + n]
            i += n
        if i != len(self.errors):
            return None
        return out


def mentions(line, name):
    """name occurs in line as a whole token (not as part of a longer name)."""
    return re.search(r"(?<![A-Za-z0-9._-])" + re.escape(name) + r"(?![A-Za-z0-9_-])(?!\.[A-Za-z0-9])", line) is not None


# --------------------------------------------------------------------------- evidence / findings

def write_evidence(pid, tier, level, coverage, wall, violations=0, assumptions=None):
    evdir = os.environ.get("VERIF_EVIDENCE_DIR") or os.path.join(VERIF, "evidence")      # rehearsals write elsewhere
    os.makedirs(evdir, exist_ok=True)
    ev = {"property_id": pid, "tier": tier, "seed": seed(), "level": level, "coverage": coverage,
          "assumptions": assumptions or [], "wall_s": round(wall, 2), "violations": violations}
    p = os.path.join(evdir, pid + ".json")
    tmp = p + ".tmp"
    with open(tmp, "w") as f:
        json.dump(ev, f, indent=1, ensure_ascii=False, default=str)
    os.replace(tmp, p)
    return p


def load_findings():
    p = os.path.join(VERIF, "known-findings.json")
    if not os.path.exists(p):
        return []
    with open(p) as f:
        return json.load(f)["findings"]


class Verdict:
    """Collects disagreements for one property run, applies the known-findings file."""

    def __init__(self, pid):
        self.pid = pid
        self.findings = [f for f in load_findings() if f["property"] == pid and f["status"] == "open"]
        self.known_hit = {}
        self.violations = []

    def disagree(self, kind, case, detail, tags=None):
        """kind: short class of disagreement; tags: dict used for matching known findings."""
        tags = dict(tags or {})
        tags["kind"] = kind
        for f in self.findings:
            if all(_match(tags.get(k), v) for k, v in f["match"].items()):
                self.known_hit.setdefault(f["id"], [f, 0])[1] += 1
                return False
        self.violations.append({"kind": kind, "case": case, "detail": detail, "tags": tags})
        return True

    def finish(self, tier, t0, write_replay=True):
        for fid, (f, n) in sorted(self.known_hit.items()):
            print("KNOWN-FINDING: property=%s %s (%s; %d cases)" % (self.pid, f["text"], fid, n))
        if not self.violations:
            return 0
        rd = os.path.join(os.environ.get("VERIF_REPLAY_DIR") or os.path.join(VERIF, "replays"), "%s-%s-%d" % (self.pid, tier, int(time.time())))
        os.makedirs(rd, exist_ok=True)
        summary = {}
        for x in self.violations:
            key = x["kind"] + " " + json.dumps({k: val for k, val in x["tags"].items() if k != "kind"}, sort_keys=True, default=str)
            summary[key] = summary.get(key, 0) + 1
        with open(os.path.join(rd, "violations.json"), "w") as fh:
            json.dump(self.violations[:50], fh, indent=1, ensure_ascii=False, default=str)
        with open(os.path.join(rd, "summary.json"), "w") as fh:
            json.dump(summary, fh, indent=1, ensure_ascii=False)
        print("  %d disagreements in %d classes (see %s/summary.json)" % (len(self.violations), len(summary), rd))
        for v in self.violations[:5]:
            print("  disagreement[%s]: %s" % (v["kind"], json.dumps(v["detail"], ensure_ascii=False, default=str)[:600]))
        print("VIOLATION property=%s replay=%s" % (self.pid, rd))
        return 1


def _match(val, pat):
    if isinstance(pat, list):
        return val in pat
    return val == pat


def sha(b):
    if isinstance(b, str):
        b = b.encode()
    return hashlib.sha256(b).hexdigest()


def main_wrapper(fn):
    try:
        rc = fn()
    except InfraError as e:
        print("INFRA-FAILURE: %s" % e, file=sys.stderr)
        rc = 2
    sys.stdout.flush()
    os._exit(rc if isinstance(rc, int) else 0) if False else sys.exit(rc)
