"""Seeded random abstract configurations (the JSON shape of Config.tla records) and histories, larger than what
TLC enumerates. They are written to ext_cases.ndjson, read back by the `ext` families of MC_Deps / MC_Container,
and the specification - not this generator - says what the tool and the generated container must do with them."""
import json

U = "~"


def lit(kind, v):
    return {"k": kind, "v": str(v), "ch": []}


def astr(v):
    return {"k": "str", "v": v, "ch": []}


def asvc(n):
    return {"k": "svc", "v": n, "ch": []}


def atagged(t):
    return {"k": "tagged", "v": t, "ch": []}


def aref(p):
    return {"k": "pat", "v": "", "ch": [{"k": "ref", "v": p, "a": ""}]}


def apat(chunks):
    return {"k": "pat", "v": "", "ch": chunks}


def ctext(t):
    return {"k": "text", "v": t, "a": ""}


def cref(p):
    return {"k": "ref", "v": p, "a": ""}


CPCT = {"k": "pct", "v": "", "a": ""}


def svc(**kw):
    s = {"todo": U, "getter": U, "must": U, "type": U, "value": U, "ctor": U, "args": [], "calls": [], "fields": [], "tags": [], "scope": U}
    s.update(kw)
    return s


def empty_meta():
    return {"pkg": U, "ctype": U, "cctor": U, "defmust": U, "imports": [], "functions": []}


def base_meta():
    m = empty_meta()
    m["imports"] = [{"n": "fx", "v": "probe.test/fx"}]
    m["functions"] = [{"n": "fn", "v": "fx.Fn"}, {"n": "fnInt", "v": "fx.FnInt"}, {"n": "fnE", "v": "fx.FnE"}]
    return m


CTORS = ["fx.NewA", "fx.NewB", "fx.NewC", "fx.NewD", "fx.NewZ"]


def random_arg(rng, later_svcs, params, tags_ok):
    c = rng.random()
    if c < 0.3 and later_svcs:
        return asvc(rng.choice(later_svcs))
    if c < 0.45 and params:
        return aref(rng.choice(params))
    if c < 0.55 and params:
        return apat([ctext("<"), cref(rng.choice(params)), CPCT, ctext(">")])
    if c < 0.65 and tags_ok:
        return atagged(rng.choice(tags_ok))
    if c < 0.75:
        return lit("int", rng.randrange(-5, 100))
    if c < 0.8:
        return lit("bool", rng.choice(["true", "false"]))
    if c < 0.85:
        return lit("null", "")
    if c < 0.9:
        return {"k": "self", "v": "", "ch": []}
    return astr(rng.choice(["text", " padded ", "7", "true", "a:b"]))


def nargs(rng, hi):
    """argument count: mostly small, now and then more than ten (positions with two digits: C02-r7-m1 emitted the
    arguments in the string order of their positions - 0, 1, 10, 11, 2 ...)"""
    return rng.randrange(11, 15) if rng.random() < 0.12 else rng.randrange(0, hi)


def runtime_cfg(rng, n=None):
    """acyclic by construction (references point to later services only); scope violations possible (the model filters)"""
    n = n or rng.randrange(5, 9)
    names = ["s%d" % i for i in range(n)]
    params = ["p%d" % i for i in range(rng.randrange(1, 5))]
    pvals = {}
    for i, p in enumerate(params):
        c = rng.random()
        if c < 0.4 or i == 0:
            pvals[p] = lit("int", rng.randrange(0, 50))
        elif c < 0.6:
            pvals[p] = astr("v%d" % i)
        elif c < 0.8:
            pvals[p] = aref(params[rng.randrange(0, i)])
        else:
            pvals[p] = apat([cref(params[rng.randrange(0, i)]), ctext("-"), cref(params[rng.randrange(0, i)])])
    tags = ["t0", "t1"]
    carriers = {t: [] for t in tags}
    services = {}
    # tags first, so that a service requests a tag only if every carrier comes later
    tagsets = {}
    for i, s in enumerate(names):
        ts = []
        for t in tags:
            if rng.random() < 0.3:
                ts.append({"n": t, "prio": rng.choice([0, 0, 5, -3, 5])})
                carriers[t].append(i)
        tagsets[s] = ts
    for i, s in enumerate(names):
        later = names[i + 1:]
        tags_ok = [t for t in tags if carriers[t] and min(carriers[t]) > i]
        args = [random_arg(rng, later, params, tags_ok) for _ in range(nargs(rng, 4))]
        calls = []
        for _ in range(rng.choice([0, 0, 1, 2])):
            w = rng.random() < 0.35
            calls.append({"m": rng.choice(["WithX", "WithY"]) if w else rng.choice(["SetX", "SetY"]),
                          "args": [random_arg(rng, later, params, tags_ok) for _ in range(nargs(rng, 3))], "w": w})
        fields = []
        for f in rng.sample(["F1", "F2", "f3"], rng.choice([0, 0, 1, 2])):
            fields.append({"n": f, "a": random_arg(rng, later, params, tags_ok)})
        services[s] = svc(ctor=rng.choice(CTORS), args=args, calls=calls, fields=fields, tags=tagsets[s],
                          scope=rng.choice([U, U, U, "shared", "contextual", "non_shared"]))
    decs = []
    last = names[-1:]
    for _ in range(rng.choice([0, 1, 2, 3])):
        t = rng.choice(tags)
        # decorator arguments must not reach a service that carries the tag (cycle): literals, parameters, or the last service if untagged
        ok_last = [x for x in last if not tagsets[x]]
        decs.append({"tag": t, "fn": rng.choice(["fx.Decorate", "fx.DecorateB", "fx.DecorateC"]),
                     "args": [random_arg(rng, ok_last, params, []) for _ in range(nargs(rng, 3))]})
    return {"version": U, "meta": base_meta(), "params": pvals, "services": services, "decorators": decs}


def runtime_ops(rng, cfg, n=25):
    names = sorted(cfg["services"])
    params = sorted(cfg["params"])
    ops = []
    for _ in range(n):
        c = rng.random()
        if c < 0.35:
            ops.append({"op": "Get", "id": rng.choice(names), "ctx": 0})
        elif c < 0.7:
            ops.append({"op": "GetInContext", "id": rng.choice(names), "ctx": rng.randrange(1, 4)})
        elif c < 0.8:
            ops.append({"op": "GetTaggedBy", "id": rng.choice(["t0", "t1"]), "ctx": 0})
        elif c < 0.86:
            ops.append({"op": "GetTaggedByInContext", "id": rng.choice(["t0", "t1"]), "ctx": rng.randrange(1, 4)})
        elif c < 0.9:
            ops.append({"op": "IsTaggedBy", "id": rng.choice(names + ["nope"]), "ctx": 0, "tag": rng.choice(["t0", "t1", "t9"])})
        elif c < 0.92:
            ops.append({"op": "CircularDeps", "id": "", "ctx": 0})
        else:
            ops.append({"op": "GetParam", "id": rng.choice(params), "ctx": 0})
    return ops


def deps_cfg(rng, n=None):
    """sparse random graph over services, parameters, tags and decorators: cycles (self loops, overlapping), dangling
    references, scope violations and name collisions between the namespaces all occur"""
    n = n or rng.randrange(5, 11)
    pool = ["s%d" % i for i in range(n)]
    ppool = ["p%d" % i for i in range(rng.randrange(0, 6))] + (["s0"] if rng.random() < 0.3 else [])
    tags = ["t0", "t1", "s1"]       # a tag named like a service
    params = {}
    for p in ppool:
        k = rng.random()
        refs = [rng.choice(ppool + ["p11"]) for _ in range(rng.choice([0, 0, 1, 1, 2]))]
        if not refs:
            params[p] = lit("int", 1)
        elif len(refs) == 1 and k < 0.5:
            params[p] = aref(refs[0])
        else:
            params[p] = apat([x for r in refs for x in (cref(r), ctext("-"))])
    services = {}
    for s in pool:
        args = []
        for _ in range(rng.choice([0, 1, 1, 2, 3])):
            c = rng.random()
            if c < 0.5:
                args.append(asvc(rng.choice(pool + ["s12", "p1"])))
            elif c < 0.7:
                args.append(atagged(rng.choice(tags)))
            elif c < 0.9 and ppool:
                args.append(aref(rng.choice(ppool + ["p12"])))
            else:
                args.append(lit("int", 3))
        place = rng.random()
        sv = svc(ctor="NewA", scope=rng.choice([U, U, "shared", "contextual", "non_shared"]),
                 tags=[{"n": t, "prio": 0} for t in tags if rng.random() < 0.2],
                 todo="true" if rng.random() < 0.1 else U)
        if place < 0.4:
            sv["args"] = args
        elif place < 0.55:
            sv["calls"] = [{"m": "SetX", "args": args, "w": False}]
        elif place < 0.85:
            # several positions at once: constructor, a call with two arguments followed by another call, a field
            sv["args"] = args[:1]
            sv["calls"] = [{"m": "SetX", "args": args[1:3], "w": False}, {"m": "SetY", "args": args[3:], "w": False}]
            sv["fields"] = [{"n": "F1", "a": rng.choice(args)}] if args else []
        else:
            sv["fields"] = [{"n": "F%d" % (i + 1), "a": a} for i, a in enumerate(args[:3])]
        services[s] = sv
    decs = []
    for _ in range(rng.choice([0, 0, 1, 2])):
        dargs = []
        for _ in range(rng.choice([0, 1, 2])):
            c = rng.random()
            dargs.append(asvc(rng.choice(pool + ["s11"])) if c < 0.5 else atagged(rng.choice(tags)) if c < 0.7 else
                         aref(rng.choice(ppool + ["p10"])) if ppool else lit("int", 1))
        decs.append({"tag": rng.choice(tags), "fn": "Decorate", "args": dargs})
    return {"version": U, "meta": empty_meta(), "params": params, "services": services, "decorators": decs}


def write_cases(path, cases):
    with open(path, "w") as f:
        for c in cases:
            f.write(json.dumps(c) + "\n")
