"""Abstract configuration (the JSON TLC prints for Config.tla records) -> YAML files.

Only YAML forms whose decoding by yaml.v3 is pinned down by vlib/selftest.py are emitted.
Style choices (key order, flow/block, quoting) are seeded and carry no meaning.
"""
import math
import random

UNSET = "~"


def fix_map(v):
    """ToJson prints the empty function as []."""
    if isinstance(v, list) and not v:
        return {}
    return v


# --------------------------------------------------------------------------- values

class Raw(str):
    """A YAML scalar emitted verbatim (already valid YAML)."""


def yaml_str(s):
    out = ['"']
    for ch in s:
        o = ord(ch)
        if ch == '"':
            out.append('\\"')
        elif ch == "\\":
            out.append("\\\\")
        elif ch == "\n":
            out.append("\\n")
        elif ch == "\t":
            out.append("\\t")
        elif ch == "\r":
            out.append("\\r")
        elif o < 0x20 or o == 0x7f:
            out.append("\\x%02x" % o)
        elif 0x80 <= o <= 0x9f or o in (0x2028, 0x2029, 0xfeff, 0xfffe, 0xffff) or 0xd800 <= o <= 0xdfff:
            out.append("\\u%04x" % o)
        else:
            out.append(ch)
    out.append('"')
    return "".join(out)


def scalar(v):
    if isinstance(v, Raw):
        return str(v)
    if v is None:
        return "~"
    if v is True:
        return "true"
    if v is False:
        return "false"
    if isinstance(v, int):
        return str(v)
    if isinstance(v, float):
        if math.isnan(v):
            return ".nan"
        if math.isinf(v):
            return ".inf" if v > 0 else "-.inf"
        r = repr(v)
        return r if ("." in r or "e" in r) else r + ".0"
    if isinstance(v, str):
        return yaml_str(v)
    raise TypeError(type(v))


def emit(v, rng=None, indent=0, flow=False):
    """Return YAML text for a nested dict/list/scalar structure (block style, flow for leaves
    collections when `flow`)."""
    sp = "  " * indent
    if isinstance(v, dict):
        if not v:
            return "{}"
        keys = list(v.keys())
        if rng is not None:
            rng.shuffle(keys)
        if flow:
            return "{" + ", ".join("%s: %s" % (yaml_str(k), emit(v[k], rng, 0, True)) for k in keys) + "}"
        lines = []
        for k in keys:
            x = v[k]
            if isinstance(x, (dict, list)) and x and not _leafy(x):
                lines.append("%s%s:\n%s" % (sp, yaml_str(k), emit(x, rng, indent + 1)))
            else:
                lines.append("%s%s: %s" % (sp, yaml_str(k), emit(x, rng, 0, True)))
        return "\n".join(lines)
    if isinstance(v, list):
        if not v:
            return "[]"
        if flow:
            return "[" + ", ".join(emit(x, rng, 0, True) for x in v) + "]"
        lines = []
        for x in v:
            lines.append("%s- %s" % (sp, emit(x, rng, 0, True)))
        return "\n".join(lines)
    return scalar(v)


def _leafy(x):
    """collections that are printed in flow style on one line"""
    if isinstance(x, dict):
        return all(not isinstance(y, (dict, list)) for y in x.values()) and len(x) <= 4
    return all(not isinstance(y, dict) or _leafy(y) for y in x) and \
        all(not isinstance(y, list) or all(not isinstance(z, (dict,)) for z in y) for y in x)


# --------------------------------------------------------------------------- arguments

def lit_value(kind, v):
    if kind == "int":
        return int(v)
    if kind == "uint64":
        return int(v)
    if kind == "float":
        special = {"+Inf": math.inf, "-Inf": -math.inf, "NaN": math.nan}
        return special[v] if v in special else float(v)
    if kind == "bool":
        return v == "true"
    if kind == "null":
        return None
    raise ValueError(kind)


def chunk_text(c):
    k = c["k"]
    if k == "text":
        return c["v"]
    if k == "pct":
        return "%%"
    if k == "ref":
        return "%" + c["v"] + "%"
    if k == "fn":
        return "%" + c["v"] + "(" + c["a"] + ")%"
    if k == "raw":           # a delimited chunk with arbitrary inner text
        return "%" + c["v"] + "%"
    raise ValueError(k)


def arg_value(a):
    k = a["k"]
    if k in ("int", "uint64", "float", "bool", "null"):
        return lit_value(k, a["v"])
    if k == "str":
        return a["v"]
    if k == "svc":
        return "@" + a["v"]
    if k == "tagged":
        r = _sep_state["rng"]
        return "!tagged" + (r.choice(TAGGED_SEPARATORS) if r is not None else " ") + a["v"]
    if k == "value":
        return "!value " + a["v"]
    if k == "self":
        return "$gontainer"
    if k == "pat":
        return "".join(chunk_text(c) for c in a["ch"])
    if k == "rawyaml":
        return Raw(a["v"])
    raise ValueError(k)


# --------------------------------------------------------------------------- configuration

PRIO_MAP = {1000001: 2147483647, 1000002: 202403010800, 1000003: 202403010900, -1000001: -(2 ** 40)}     # TLC integers are 32 bit


TAGGED_SEPARATORS = [" ", " ", "  ", "\t", "\n", " \n ", "\r\n"]      # `!tagged\s+name`: any white space separates keyword and tag
_sep_state = {"rng": None}


def vary_separators(rng):
    """from now on `!tagged` arguments are written with a separator drawn from TAGGED_SEPARATORS (None: a single blank)"""
    _sep_state["rng"] = rng


def service_doc(s, explicit=None, todo_false=None):
    """explicit: a Random; when given, empty collections are sometimes written out ([] / {} / ~) instead of omitted"""
    d = {}
    if explicit is not None:
        for key, yk, empty in (("args", "arguments", []), ("calls", "calls", []), ("tags", "tags", []), ("fields", "fields", {})):
            if not s[key] and explicit.random() < 0.5:
                d[yk] = explicit.choice([empty, None])
    if s["todo"] != UNSET:
        d["todo"] = s["todo"] == "true"
    elif todo_false is not None and todo_false.random() < 0.4:
        d["todo"] = False                      # saying it explicitly changes nothing (single-file configurations only)
    for key, yk in (("getter", "getter"), ("type", "type"), ("value", "value"), ("ctor", "constructor")):
        if s[key] != UNSET:
            d[yk] = s[key]
    if s["must"] != UNSET:
        d["must_getter"] = s["must"] == "true"
    if s["args"]:
        d["arguments"] = [arg_value(a) for a in s["args"]]
    if s["calls"]:
        calls = []
        for c in s["calls"]:
            item = [c["m"], [arg_value(a) for a in c["args"]]]
            if c["w"]:
                item.append(True)
            calls.append(item)
        d["calls"] = calls
    if s["fields"]:
        d["fields"] = {f["n"]: arg_value(f["a"]) for f in s["fields"]}
    if s["tags"]:
        tags = []
        for t in s["tags"]:
            if t["prio"] == 0 and not t.get("explicit"):
                tags.append(t["n"])
            else:
                tags.append({"name": t["n"], "priority": PRIO_MAP.get(t["prio"], t["prio"])})
        d["tags"] = tags
    if s["scope"] != UNSET:
        d["scope"] = s["scope"]
    return d


def cfg_doc(cfg, explicit=None, todo_false=None):
    """abstract cfg (or partial cfg = one file) -> nested python structure mirroring the YAML."""
    doc = {}
    if cfg.get("version", UNSET) != UNSET:
        doc["version"] = cfg["version"]
    m = cfg.get("meta")
    if m:
        md = {}
        for key, yk in (("pkg", "pkg"), ("ctype", "container_type"), ("cctor", "container_constructor")):
            if m[key] != UNSET:
                md[yk] = m[key]
        if m["defmust"] != UNSET:
            md["default_must_getter"] = m["defmust"] == "true"
        if m["imports"]:
            md["imports"] = {e["n"]: e["v"] for e in m["imports"]}
        if m["functions"]:
            md["functions"] = {e["n"]: e["v"] for e in m["functions"]}
        if md:
            doc["meta"] = md
    params = fix_map(cfg.get("params", {}))
    if params:
        doc["parameters"] = {n: arg_value(a) for n, a in params.items()}
    services = fix_map(cfg.get("services", {}))
    if services:
        doc["services"] = {n: service_doc(s, explicit, todo_false) for n, s in services.items()}
    if explicit is not None:
        if not cfg.get("decorators") and explicit.random() < 0.5:
            doc["decorators"] = explicit.choice([[], None])
        if not params and explicit.random() < 0.3:
            doc["parameters"] = explicit.choice([{}, None])
    if cfg.get("decorators"):
        doc["decorators"] = [{"tag": d["tag"], "decorator": d["fn"],
                              **({"arguments": [arg_value(a) for a in d["args"]]} if d["args"] else {})}
                             for d in cfg["decorators"]]
    return doc


def to_yaml(cfg, rng=None, explicit=None, todo_false=None):
    doc = cfg_doc(cfg, explicit, todo_false)
    if not doc:
        return explicit.choice(["{}\n", "", "# nothing in this file\n"]) if explicit is not None else "{}\n"
    return emit(doc, rng) + "\n"
