from .checks import deps, pipeline, version, selfhost, container, compilecheck, imports, pattern, grammar, merge, determinism, totality, conc

CHECKS = {
    "C01": lambda tier: compilecheck.run("C01", tier),
    "C17": lambda tier: compilecheck.run("C17", tier),
    "C02": lambda tier: container.run_c02(tier),
    "C03": lambda tier: pattern.run_c03(tier),
    "C04": lambda tier: container.run_c04(tier),
    "C05": lambda tier: deps.run_property("C05", tier),
    "C06": lambda tier: deps.run_property("C06", tier),
    "C07": lambda tier: deps.run_property("C07", tier),
    "C08": lambda tier: determinism.run_c08(tier),
    "C09": lambda tier: merge.run_c09(tier),
    "C10": lambda tier: pipeline.run_c10(tier),
    "C11": lambda tier: grammar.run_c11(tier),
    "C12": lambda tier: totality.run_c12(tier),
    "C13": lambda tier: container.run_c13(tier),
    "C14": lambda tier: imports.run_c14(tier),
    "C15": lambda tier: container.run_c15(tier),
    "C16": lambda tier: deps.run_c16(tier),
    "C18": lambda tier: version.run_c18(tier),
    "C19": lambda tier: selfhost.run_c19(tier),
    "C20": lambda tier: conc.run_c20(tier),
}
