"""C05 (verdict part), C06, C07, C16: the output-validation rules, decided by replaying every
configuration TLC enumerates from spec/MC_Deps.tla on the real tool (R2) and by validating
recorded runs of larger random configurations against spec/Trace_Deps.tla (R3)."""
import json
import os
import random
import re
import time

from .. import core, concretise

SUBSTEPS = ["Scope", "Circular dependencies", "Missing parameters", "Missing services"]

NODE_RE = [
    (re.compile(r"^@(.+)$"), "svc"),
    (re.compile(r"^%(.+)%$"), "par"),
    (re.compile(r"^!tagged (.+)$"), "tag"),
    (re.compile(r"^decorate\(!tagged (.+)\)$"), "dtag"),
    (re.compile(r"^decorator\(#(\d+)\)$"), "dec"),
]


def parse_cycle(line):
    """'@a -> !tagged t -> @a' -> [(kind,name)...] or None"""
    # strip any step prefix up to the first node-looking token
    m = re.search(r"(@|%|!tagged |decorate\(|decorator\()", line)
    if not m:
        return None
    toks = [t.strip() for t in line[m.start():].split(" -> ")]
    out = []
    for t in toks:
        for rx, kind in NODE_RE:
            mm = rx.match(t)
            if mm:
                n = mm.group(1)
                if kind == "dec":
                    n = str(int(n) + 1)      # the specification numbers decorators from 1
                out.append((kind, n))
                break
        else:
            return None
    return out


class ToolRun:
    def __init__(self, res):
        self.res = res
        self.exit = res["exit"]
        self.report = core.Report(res["stdout"])
        self.sub = self.report.sub_errors()

    def class_errors(self, name):
        if self.sub is None:
            return None
        return self.sub.get(name, [])

    def reached_validation(self):
        return self.report.step("Validate output") is not None


def make_jobs(cases, wd, rng, flags_key="flags"):
    jobs = []
    for i, c in enumerate(cases):
        d = os.path.join(wd, "c%06d" % i)
        os.makedirs(d, exist_ok=True)
        with open(os.path.join(d, "in.yaml"), "w") as f:
            f.write(concretise.to_yaml(c["cfg"], rng))
        args = ["-i", "in.yaml", "-o", "out.go"]
        fl = c.get(flags_key) or {}
        # a boolean flag may be written bare or with an explicit value; an unset flag may be written =false
        for key, name in (("ignoreP", "--ignore-missing-params"), ("ignoreS", "--ignore-missing-services")):
            style = rng.random()
            if fl.get(key):
                args.append(name if style < 0.6 else name + "=true")
            elif style < 0.25:
                args.append(name + "=false")
        if c.get("stub"):
            args.append("--stub")
        jobs.append({"id": i, "dir": d, "args": args, "version": "dev-main", "buildinfo": "verif", "out": "out.go"})
    return jobs


def pairs(x):
    return sorted(tuple(p) for p in x)


def check_scope(case, tr, v):
    """C05: rejected for scope reasons iff some declared-shared service reaches a declared-contextual one; the
    diagnostics name exactly the model's <shared, contextual> pairs."""
    exp = pairs(case["exp"]["scope"])
    errs = tr.class_errors("Scope")
    if errs is None:
        return v.disagree("report-counts", case, {"stdout": tr.res["stdout"][-1500:]})
    st = tr.report.step("Scope")
    got_fail = st is not None and st["status"] == "fail"
    if bool(exp) != got_fail:
        return v.disagree("scope-verdict", case, {"expected_pairs": exp, "tool_scope_step": st, "errors": errs})
    for (s, t) in exp:
        if not any(core.mentions(e, s) and core.mentions(e, t) for e in errs):
            return v.disagree("scope-pair-not-named", case, {"pair": (s, t), "errors": errs})
    names = set(concretise.fix_map(case["cfg"]["services"]).keys())
    for e in errs:
        ment = {n for n in names if core.mentions(e, n)}
        if not any(s in ment and t in ment for (s, t) in exp):
            return v.disagree("scope-spurious-diagnostic", case, {"error": e, "expected_pairs": exp})
    return False


def check_cycle(case, tr, v):
    exp = [tuple(n) for n in case["exp"]["cycle"]]
    edges = {(tuple(a), tuple(b)) for a, b in case["exp"]["edges"]}
    errs = tr.class_errors("Circular dependencies")
    if errs is None:
        return v.disagree("report-counts", case, {"stdout": tr.res["stdout"][-1500:]})
    st = tr.report.step("Circular dependencies")
    got_fail = st is not None and st["status"] == "fail"
    if bool(exp) != got_fail:
        return v.disagree("cycle-verdict", case, {"expected_on_cycle": exp, "tool_step": st, "errors": errs})
    seen = set()
    for e in errs:
        cyc = parse_cycle(e)
        if cyc is None or len(cyc) < 2:
            return v.disagree("cycle-unparsable", case, {"error": e})
        if cyc[0] != cyc[-1]:
            return v.disagree("cycle-not-closed", case, {"error": e})
        for a, b in zip(cyc, cyc[1:]):
            if (a, b) not in edges:
                return v.disagree("cycle-not-a-walk", case, {"error": e, "edge": (a, b)})
        seen.update(cyc)
    for n in exp:
        if n[0] in ("svc", "par") and n not in seen:
            return v.disagree("cycle-element-not-shown", case, {"node": n, "errors": errs})
    return False


def _ref_names(referrer):
    if referrer.startswith("#"):
        return None
    return referrer.strip("%@")


def check_missing(case, tr, v, which):
    key, step, word = {"P": ("missP", "Missing parameters", "param"),
                       "S": ("missS", "Missing services", "service")}[which]
    exp = pairs(case["exp"][key])
    errs = tr.class_errors(step)
    if errs is None:
        return v.disagree("report-counts", case, {"stdout": tr.res["stdout"][-1500:]})
    st = tr.report.step(step)
    flags = case.get("flags") or {}
    ignored = flags.get("ignore" + which)
    if ignored:
        if st is not None and st["status"] == "fail":
            return v.disagree("ignored-step-reports", case, {"step": st})
        return False
    got_fail = st is not None and st["status"] == "fail"
    if bool(exp) != got_fail:
        return v.disagree("missing-%s-verdict" % word, case, {"expected": exp, "tool_step": st, "errors": errs},
                          tags={"referrers": sorted({r[0][0] for r in exp})})
    decs = case["cfg"]["decorators"]
    for (ref, name) in exp:
        ok = False
        for e in errs:
            if not core.mentions(e, name):
                continue
            if ref.startswith("#"):
                i = int(ref[1:])
                d = decs[i]
                if ("#%d" % i) in e or core.mentions(e, d["tag"]) or core.mentions(e, d["fn"]):
                    ok = True
            elif core.mentions(e, ref.strip("%@")):
                ok = True
            if ok:
                break
        if not ok:
            return v.disagree("missing-%s-not-reported" % word, case, {"pair": (ref, name), "errors": errs},
                              tags={"referrers": [ref[0]]})
    missing_names = {n for (_, n) in exp}
    for e in errs:
        if not any(core.mentions(e, n) for n in missing_names):
            return v.disagree("missing-%s-spurious" % word, case, {"error": e, "expected": exp})
    return False


def check_exit(case, tr, v):
    """exit status agrees with the report; accept iff the model accepts (no compile-stage failure expected)."""
    if tr.exit not in (0, 1):
        return v.disagree("abnormal-exit", case, {"exit": tr.exit, "panic": tr.res.get("panic", "")[:800]})
    if not tr.reached_validation():
        return v.disagree("validation-not-reached", case, {"stdout": tr.res["stdout"][-1500:]})
    acc = case["exp"]["accept"]
    if acc != (tr.exit == 0):
        return v.disagree("accept-mismatch", case, {"model_accepts": acc, "exit": tr.exit, "errors": tr.report.errors[:6]})
    return False


ASPECTS = {
    "C05": [check_scope],
    "C07": [check_cycle],
    "C06": [lambda c, t, v: check_missing(c, t, v, "P"), lambda c, t, v: check_missing(c, t, v, "S")],
}


def enumerate_family(fam, timeout=900):
    r = core.run_tlc("MC_Deps.tla", "MC_Deps_%s.cfg" % fam, timeout=timeout)
    if r.violation:
        raise core.InfraError("TLC reports a violation of a design-level invariant in MC_Deps/%s:\n%s" % (fam, r.raw_tail[-2000:]))
    return r


def replay(cases, rng):
    wd = core.subdir("deps-%d" % random.getrandbits(32))
    pool = core.DriverPool()
    try:
        jobs = make_jobs(cases, wd, rng)
        res = pool.run_all(jobs)
    finally:
        pool.close()
    import shutil
    shutil.rmtree(wd, ignore_errors=True)
    return [ToolRun(r) for r in res]


# --------------------------------------------------------------------------- per-property drivers

FAMILIES = {
    # property -> tier -> list of MC_Deps families
    "C05": {"quick": ["A2", "T", "B"], "thorough": ["A2", "T", "B", "A3", "C"]},
    "C07": {"quick": ["A2", "P", "Bn", "D", "K"], "thorough": ["A2", "P", "Bn", "D", "K", "B", "A3"]},
    "C06": {"quick": ["Mq", "N"], "thorough": ["M", "N"]},
}

LEVEL_TEXT = "model_checking"


def nontrivial(pid, case):
    e = case["exp"]
    if pid == "C05":
        return bool(e["scope"]) or any(x == "contextual" for x in concretise.fix_map(e["eff"]).values())
    if pid == "C07":
        return bool(e["cycle"])
    if pid == "C06":
        return bool(e["missP"]) or bool(e["missS"])
    return True


def run_property(pid, tier):
    t0 = time.time()
    rng = random.Random(core.seed())
    v = core.Verdict(pid)
    fams = FAMILIES[pid][tier]
    tot_states = tot_gen = 0
    n_cases = n_nontrivial = 0
    accepted = rejected = 0
    samples = []
    per_family = {}
    accepted_cases = []
    for fam in fams:
        r = enumerate_family(fam)
        tot_states += r.states
        tot_gen += r.generated
        cases = r.emitted
        if pid == "C06":
            cases = [c for c in cases if not c["flags"]["ignoreP"] and not c["flags"]["ignoreS"]]
        runs = replay(cases, rng)
        nt = 0
        for c, tr in zip(cases, runs):
            n_cases += 1
            if nontrivial(pid, c):
                nt += 1
            if c["exp"]["accept"]:
                accepted += 1
                if tr.exit == 0:
                    accepted_cases.append(c)
            else:
                rejected += 1
            if check_exit_basic(c, tr, v):
                continue
            for asp in ASPECTS[pid]:
                if asp(c, tr, v):
                    break
        n_nontrivial += nt
        per_family[fam] = {"tlc_distinct_states": r.states, "configurations_replayed": len(cases), "nontrivial": nt,
                           "tlc_wall_s": round(r.wall, 1)}
        if cases:
            samples.append({"family": fam, "yaml": concretise.to_yaml(cases[len(cases) // 2]["cfg"]),
                            "expected": cases[len(cases) // 2]["exp"]})
    r3 = run_traces(pid, tier, rng, v)
    if pid in ("C06", "C07"):
        r3["runtime_consequences"] = runtime_consequences(pid, tier, accepted_cases, v, rng)
    rt_stats = None
    if pid == "C05":
        # run-time half: instance identities over histories of Get / GetInContext (Container.tla)
        from . import container
        rts = container.run_c05_runtime(tier, v, rng)
        rt_stats = rts[0]
        b = container.run_family("C05", tier, "build", "MC_Container_build.cfg", v, rng)
        tot_states += sum(x["tlc_states"] for x in rts) + b["tlc_states"]
        tot_gen += sum(x["tlc_generated"] for x in rts) + b["tlc_generated"]
        r3 = {"traces": sum(x["compared"] for x in rts) + b["compared"], "nontrivial": sum(x["nontrivial"] for x in rts),
              "samples": [rt_stats["sample"]],
              "runtime_families": [{k: x[k] for k in x if k != "sample"} for x in rts + [b]]}
        for x in rts:
            if x["compared"] < 0.5 * x["histories"] and not v.violations:
                raise core.InfraError("run-time half of C05 mostly unobservable (%s): %s" % (x["family"], x["unobservable"]))
    if accepted == 0 or rejected == 0 or n_nontrivial < 2:
        raise core.InfraError("degenerate exploration: accepted=%d rejected=%d nontrivial=%d" % (accepted, rejected, n_nontrivial))
    rc = v.finish(tier, t0)
    core.write_evidence(pid, tier, "model_checking", {
        "states": tot_states, "transitions": tot_gen,
        "traces_validated_against_impl": r3["traces"],
        "samples": samples[:3] + r3.get("samples", []),
        "evaluations": n_cases + r3["traces"], "distinct_nontrivial": n_nontrivial + r3.get("nontrivial", 0),
        "rule": "every configuration TLC enumerates in the listed MC_Deps families is concretised to YAML and run on the tool "
                "built from /repo; non-trivial = the specification expects a diagnostic of this property's class "
                "(or a derived contextual scope); plus seeded random larger configurations whose recorded runs are "
                "validated by TLC against Trace_Deps",
        "exhaustive": True, "families": per_family, "model_accepts": accepted, "model_rejects": rejected,
        "r3": r3, "known_findings_hit": {k: n for k, (f, n) in v.known_hit.items()},
        "design_invariants_checked_by_tlc": ["ScopeRuleSound", "FlagsOnlyNarrow", "AcceptedMeansClosed"],
    }, time.time() - t0, violations=len(v.violations),
        assumptions=["TLC, the concretiser and the report projection are trusted (vlib/selftest.py exercises them)",
                     "diagnostics are matched by the names they mention, not by their wording",
                     "sub-step attribution of the numbered error list uses the counts printed in the report"])
    return rc


def check_exit_basic(case, tr, v):
    if tr.exit not in (0, 1):
        return v.disagree("abnormal-exit", case, {"exit": tr.exit, "panic": tr.res.get("panic", "")[:800]})
    if not tr.reached_validation():
        return v.disagree("validation-not-reached", case, {"stdout": tr.res["stdout"][-1500:]})
    return False


def runtime_consequences(pid, tier, accepted_cases, v, rng):
    """C06 / C07, second half: an ACCEPTED configuration yields a container that never fails with 'does not exist' for a reference
    written in the configuration, reports no circular dependencies, and whose parameter evaluation terminates (probe watchdog)."""
    from . import container
    from .. import probe as probemod
    limit = 250 if tier == "quick" else 2500
    cases = list(accepted_cases)
    rng.shuffle(cases)
    cases = cases[:limit]
    if not cases:
        return {"containers_exercised": 0}
    rp = container.Replayer("%s-rt" % pid, rng)
    for c in cases:
        rp.add_case({"cfg": c["cfg"], "hist": []})
    entries = rp.generate()
    good_entries = [e for e in entries if e["source"] is not None]
    n = 0
    for bi in range(0, len(good_entries), 250):
        chunk = good_entries[bi:bi + 250]
        pb = probemod.Probe(name="probe-%s-rt-%d" % (pid, bi))
        for e in chunk:
            pb.add(e["name"], e["source"])
        good = set(pb.build())
        scripts = []
        for e in chunk:
            if e["name"] not in good:
                continue
            cfg = e["cfg"]
            ops = [{"op": "CircularDeps"}]
            ops += [{"op": "GetParam", "id": p} for p in sorted(concretise.fix_map(cfg["params"]))]
            ops += [{"op": "Get", "id": s_} for s_ in sorted(concretise.fix_map(cfg["services"]))]
            ops += [{"op": "GetTaggedBy", "tag": t} for t in ("t0", "t1", "s1")]
            scripts.append({"id": len(scripts), "pkg": e["name"], "ops": ops, "_e": e})
        res = pb.run([{k: x for k, x in s_.items() if k != "_e"} for s_ in scripts])
        import shutil as _sh
        _sh.rmtree(pb.dir, ignore_errors=True)
        for s_ in scripts:
            rr = res[s_["id"]]
            e = s_["_e"]
            if rr.get("timeout"):
                v.disagree("accepted-container-does-not-terminate", {"yaml": e["yaml"]}, {"ops": s_["ops"][:6]})
                continue
            if rr.get("crashed") is not None or rr.get("err"):
                v.disagree("accepted-container-crashes", {"yaml": e["yaml"]}, {k: rr.get(k) for k in ("crashed", "err", "stderr")})
                continue
            n += 1
            for op, o in zip(s_["ops"], rr["res"]):
                err = o.get("err", "") if isinstance(o.get("err", ""), str) else ""
                if "panic" in o:
                    v.disagree("accepted-container-panics", {"yaml": e["yaml"]}, {"op": op, "panic": o["panic"][:300]})
                    break
                if pid == "C07" and (op["op"] == "CircularDeps" and "err" in o or "circular dependencies" in err):
                    v.disagree("accepted-container-reports-circular-dependencies", {"yaml": e["yaml"]}, {"op": op, "error": err[:400]})
                    break
                if pid == "C06" and "does not exist" in err:
                    v.disagree("accepted-container-fails-with-does-not-exist", {"yaml": e["yaml"]}, {"op": op, "error": err[:400]})
                    break
    import shutil as _sh2
    _sh2.rmtree(rp.wd, ignore_errors=True)
    return {"containers_exercised": n, "unobservable": rp.unobservable}


def run_traces(pid, tier, rng, v):
    """larger seeded random graphs (vlib/randcfg.py), judged by the same specification through MC_Deps family ext"""
    from .. import randcfg
    n = 200 if tier == "quick" else 4000
    cases = [{"cfg": randcfg.deps_cfg(rng), "allflags": False} for _ in range(n)]
    r = core.run_tlc("MC_Deps.tla", "MC_Deps_ext.cfg", timeout=3000,
                     extra_files={"ext_cases.ndjson": "\n".join(json.dumps(c) for c in cases) + "\n"})
    if r.violation:
        raise core.InfraError("TLC: invariant violated in MC_Deps/ext:\n" + r.raw_tail[-2000:])
    runs = replay(r.emitted, rng)
    nt = 0
    for c, tr in zip(r.emitted, runs):
        if nontrivial(pid, c):
            nt += 1
        if check_exit_basic(c, tr, v):
            continue
        for asp in ASPECTS[pid]:
            if asp(c, tr, v):
                break
    mid = r.emitted[len(r.emitted) // 2]
    return {"traces": len(r.emitted), "nontrivial": nt, "tlc_states": r.states,
            "samples": [{"family": "ext (random)", "yaml": concretise.to_yaml(mid["cfg"]), "expected": {k: mid["exp"][k] for k in ("accept", "scope", "cycle", "missP", "missS")}}]}


# --------------------------------------------------------------------------- C16

C16_FAMILIES = {"quick": ["X", "N", "Mq", "ext"], "thorough": ["X", "N", "M", "ext"]}
FLAGKEYS = [(False, False), (True, False), (False, True), (True, True)]


def run_c16(tier):
    pid = "C16"
    t0 = time.time()
    rng = random.Random(core.seed())
    v = core.Verdict(pid)
    tot_states = tot_gen = n_cases = n_groups = n_nontrivial = 0
    acc = rej = 0
    samples, per_family = [], {}
    for fam in C16_FAMILIES[tier]:
        if fam == "ext":
            from .. import randcfg
            ext = [{"cfg": randcfg.deps_cfg(rng), "allflags": True} for _ in range(120 if tier == "quick" else 1500)]
            r = core.run_tlc("MC_Deps.tla", "MC_Deps_ext.cfg", timeout=3000,
                             extra_files={"ext_cases.ndjson": "\n".join(json.dumps(c) for c in ext) + "\n"})
            if r.violation:
                raise core.InfraError("TLC: invariant violated in MC_Deps/ext:\n" + r.raw_tail[-2000:])
        else:
            r = enumerate_family(fam)
        tot_states += r.states
        tot_gen += r.generated
        cases = r.emitted
        if fam == "X":          # the verdict must not depend on --stub either
            cases = cases + [dict(c, stub=True) for c in cases]
        wd = core.subdir("c16-%d" % random.getrandbits(32))
        pool = core.DriverPool()
        try:
            jobs = make_jobs(cases, wd, rng)
            for j in jobs:
                j["want_out"] = False
            res = pool.run_all(jobs)
        finally:
            pool.close()
        runs = [ToolRun(x) for x in res]
        import shutil
        shutil.rmtree(wd, ignore_errors=True)
        groups = {}
        for c, tr in zip(cases, runs):
            key = json.dumps([c["cfg"], bool(c.get("stub"))], sort_keys=True)
            groups.setdefault(key, {})[(c["flags"]["ignoreP"], c["flags"]["ignoreS"])] = (c, tr)
        nt = 0
        for key, g in groups.items():
            n_groups += 1
            if len(g) != 4:
                raise core.InfraError("family %s: a configuration without all four flag sets" % fam)
            c0, t0r = g[(False, False)]
            d0 = c0["exp"]
            if d0["missP"] or d0["missS"]:
                nt += 1
            for fk in FLAGKEYS:
                c, tr = g[fk]
                n_cases += 1
                if c["exp"]["accept"]:
                    acc += 1
                else:
                    rej += 1
                if check_exit_basic(c, tr, v):
                    continue
                # (1) accepted iff everything left belongs to an ignored class
                if c["exp"]["accept"] != (tr.exit == 0):
                    v.disagree("flag-accept-mismatch", c, {"flags": c["flags"], "model_accepts": c["exp"]["accept"],
                                                          "exit": tr.exit, "errors": tr.report.errors[:6]})
                    continue
                if tr.sub is None or t0r.sub is None:
                    v.disagree("report-counts", c, {"stdout": tr.res["stdout"][-1200:]})
                    continue
                # (2) every other diagnostic is reported unchanged; the ignored class is silent
                bad = False
                for step, ign in (("Scope", False), ("Circular dependencies", False),
                                  ("Missing parameters", fk[0]), ("Missing services", fk[1])):
                    if ign:
                        if tr.sub.get(step):
                            bad = v.disagree("ignored-class-reported", c, {"step": step, "errors": tr.sub.get(step)})
                        st = tr.report.step(step)
                        if st is not None and st["status"] == "fail":
                            bad = v.disagree("ignored-step-fails", c, {"step": st})
                    elif tr.sub.get(step, []) != t0r.sub.get(step, []):
                        bad = v.disagree("diagnostic-changed-by-flag", c, {"step": step, "flags": c["flags"],
                                                                         "without": t0r.sub.get(step), "with": tr.sub.get(step)})
                    if bad:
                        break
                if bad:
                    continue
                # model side of (2): the non-ignored classes agree with the specification
                for asp in ([check_scope, check_cycle] + ASPECTS["C06"]):
                    if asp(c, tr, v):
                        break
                # (3) accepted without flags => byte-identical output under any flags
                if t0r.exit == 0:
                    if tr.exit != 0 or tr.res["post"].get("sha") != t0r.res["post"].get("sha"):
                        v.disagree("output-differs-under-flags", c, {"flags": c["flags"], "sha0": t0r.res["post"],
                                                                     "sha": tr.res["post"], "exit": tr.exit})
        n_nontrivial += nt
        per_family[fam] = {"tlc_distinct_states": r.states, "runs": len(cases), "configurations": len(groups),
                           "with_missing_reference": nt, "tlc_wall_s": round(r.wall, 1)}
        k = sorted(groups)[len(groups) // 2]
        samples.append({"family": fam, "yaml": concretise.to_yaml(groups[k][(True, False)][0]["cfg"]),
                        "flags": "--ignore-missing-params", "expected": groups[k][(True, False)][0]["exp"]})
    # ---- a grammar defect beside the missing references, and quiet mode: the flags touch nothing but their own class
    from . import grammar
    base = {"parameters": {"p": 1}, "services": {"s": {"constructor": "NewA", "arguments": ["%gone%", "@nowhere"]}}}
    hand = [("only-missing", base, None)]
    for tok in ("%port_%", "%db.%", "%x-%", "%%%", "%fn(%", "%nofn()%", "%a..b%", "%_a%", "%9a%", "@", "@bad name", "!value ", "!tagged "):
        d = json.loads(json.dumps(base))
        d["services"]["g"] = {"constructor": "NewA", "arguments": [tok]}
        hand.append(("grammar-arg " + tok, d, "g"))
        d = json.loads(json.dumps(base))
        d["parameters"]["g"] = tok
        if tok.startswith("%"):
            hand.append(("grammar-param " + tok, d, "g"))
    for kind in sorted(grammar.DEFECTS):
        d = json.loads(json.dumps(base))
        d.setdefault("meta", {"imports": {}})
        d["meta"].setdefault("imports", {})
        d.setdefault("decorators", [])
        grammar.DEFECTS[kind][0](d)
        hand.append(("grammar-" + kind, d, grammar.DEFECTS[kind][1]))
    wd = core.subdir("c16-hand")
    hjobs, hmeta = [], []
    for hi, (label, doc, key) in enumerate(hand):
        y = concretise.emit(doc, rng) + "\n"
        for fk in FLAGKEYS:
            for quiet in (False, True):
                d = os.path.join(wd, "h%04d_%d%d%d" % (hi, fk[0], fk[1], quiet))
                os.makedirs(d)
                with open(os.path.join(d, "in.yaml"), "w") as f:
                    f.write(y)
                args = ["-i", "in.yaml", "-o", "out.go"] + (["--ignore-missing-params"] if fk[0] else []) + (["--ignore-missing-services"] if fk[1] else [])
                hjobs.append({"id": len(hjobs), "dir": d, "args": args + (["-q"] if quiet else []), "version": "dev-main", "buildinfo": "verif", "out": "out.go"})
                hmeta.append((hi, fk, quiet))
    pool = core.DriverPool()
    try:
        hres = pool.run_all(hjobs)
    finally:
        pool.close()
    import shutil
    shutil.rmtree(wd, ignore_errors=True)
    byrun = {m: r for m, r in zip(hmeta, hres)}
    n_hand = 0
    for hi, (label, doc, key) in enumerate(hand):
        case = {"scenario": label, "yaml": concretise.emit(doc, None)}
        r00 = byrun[(hi, (False, False), False)]
        e00 = core.Report(r00["stdout"]).errors
        for fk in FLAGKEYS:
            n_hand += 1
            r, rq = byrun[(hi, fk, False)], byrun[(hi, fk, True)]
            want = (fk == (True, True)) if key is None else False
            if r["exit"] not in (0, 1) or rq["exit"] not in (0, 1):
                v.disagree("abnormal-exit", case, {"flags": fk, "exit": [r["exit"], rq["exit"]]})
                continue
            if (r["exit"] == 0) != want:
                v.disagree("flag-accept-mismatch", case, {"flags": fk, "expected_accept": want, "exit": r["exit"], "errors": core.Report(r["stdout"]).errors[:6]})
                continue
            if rq["exit"] != r["exit"] or rq["stdout"] != "":
                v.disagree("quiet-changes-the-verdict", case, {"flags": fk, "exit": r["exit"], "exit_quiet": rq["exit"], "printed": rq["stdout"][:200]})
                continue
            if key is not None:
                errs = core.Report(r["stdout"]).errors
                if errs != e00:
                    v.disagree("diagnostic-changed-by-flag", case, {"flags": fk, "without": e00[:6], "with": errs[:6]})
    per_family["hand"] = {"runs": len(hjobs), "configurations": len(hand)}
    if acc == 0 or rej == 0 or n_nontrivial < 2:
        raise core.InfraError("degenerate exploration: accept=%d reject=%d nontrivial=%d" % (acc, rej, n_nontrivial))
    rc = v.finish(tier, t0)
    core.write_evidence(pid, tier, "model_checking", {
        "states": tot_states, "transitions": tot_gen, "traces_validated_against_impl": 0,
        "samples": samples[:3], "evaluations": n_cases, "distinct_nontrivial": n_nontrivial,
        "rule": "every (configuration, flag set) TLC enumerates in the listed MC_Deps families is run on the tool; "
                "non-trivial = a configuration with at least one missing reference (so that a flag matters); for each "
                "configuration the four runs are compared with the specification (accept iff all remaining diagnostics "
                "are ignored; per-class diagnostic sets) and with each other (non-ignored error lists identical, "
                "output sha256 identical when accepted without flags)",
        "exhaustive": True, "families": per_family, "model_accepts": acc, "model_rejects": rej,
        "known_findings_hit": {k: n for k, (f, n) in v.known_hit.items()},
        "design_invariants_checked_by_tlc": ["FlagsOnlyNarrow"],
    }, time.time() - t0, violations=len(v.violations),
        assumptions=["grammar defects fail in the Compile step, before any switchable rule: a hand-made set (malformed %tokens%, @ / !value / !tagged forms, the defect classes of C11) beside a missing parameter and service must be rejected with the same error list under every flag set, with and without --quiet",
                     "diagnostics are matched by the names they mention; lists of one class are compared verbatim between runs of the same tool"])
    return rc
