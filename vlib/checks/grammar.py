"""C11: input grammar. TLC enumerates, per grammar position, every symbol string up to a bound over the
position's alphabet with the verdict of Grammar.tla's recogniser; each string is instantiated and placed
in every YAML site of that position (many per configuration); the tool must flag exactly the strings
outside the language, naming the offending key. Disagreeing candidates are re-run alone before reporting.
Plus k-subsets of simultaneous structural defects (every one must be reported) and the todo exemption."""
import itertools
import json
import os
import random
import re
import shutil
import time

from .. import core, concretise

SYM = {"L": "a", "D": "7", "US": "_", "PT": ".", "HY": "-", "SL": "/", "QT": '"', "ST": "*", "AM": "&", "LB": "{", "RB": "}",
       "SP": " ", "AT": "@", "KV": "!value", "KT": "!tagged"}
O_ASCII = ["#", "+", "~", "?", ":", "$"]


def conc(sym, rng):
    return "".join(SYM.get(s) or rng.choice(O_ASCII) for s in sym)


def goq(s):
    """Go's %+q for printable ASCII"""
    return '"' + s.replace("\\", "\\\\").replace('"', '\\"') + '"'


VALID_SVC = {"constructor": "NewA"}


class Site:
    """how candidates of one position are embedded in a configuration and recognised in diagnostics"""

    def __init__(self, name, position, build, flagged, single=False, flags=()):
        self.name, self.position, self.build, self.flagged, self.single, self.flags = name, position, build, flagged, single, flags


def by_carrier(errors, cands):
    out = set()
    for e in errors:
        for m in re.finditer(r'(?<![A-Za-z0-9_.-])c(\d+)(?![A-Za-z0-9_-])', e):
            out.add(int(m.group(1)))
    return out


def by_text(errors, cands):
    out = set()
    for i, c in enumerate(cands):
        q = goq(c)
        if any(q in e for e in errors):
            out.add(i)
    return out


def by_dec_index(errors, cands):
    out = set()
    for e in errors:
        m = re.search(r"(?:decorators: |StepCompileDecorators: )#?(\d+) ", e) or re.search(r"#(\d+)\b", e)
        if m:
            out.add(int(m.group(1)))
        else:            # another wording: fall back to the candidate text itself
            for i, c in enumerate(cands):
                if len(c) >= 3 and c in e:
                    out.add(i)
    return out


def carriers(field):
    def build(cands):
        svcs = {}
        for i, c in enumerate(cands):
            s = dict(VALID_SVC)
            s.update(field(c))
            svcs["c%d" % i] = s
        return {"services": svcs}
    return build


SITES = [
    Site("param-name", "name", lambda cs: {"parameters": {c: 1 for c in cs}}, by_text),
    Site("service-name", "name", lambda cs: {"services": {c: dict(VALID_SVC) for c in cs}}, by_text),
    Site("service-tag", "name", carriers(lambda c: {"tags": [c]}), by_carrier),
    Site("service-tag-object", "name", carriers(lambda c: {"tags": [{"name": c, "priority": 3}]}), by_carrier),
    Site("import-alias", "name", lambda cs: {"meta": {"imports": {c: "some/pkg" for c in cs}}}, by_text),
    Site("getter", "ident", carriers(lambda c: {"getter": c}), by_carrier),
    Site("call-method", "ident", carriers(lambda c: {"calls": [[c, []]]}), by_carrier),
    Site("field-name", "ident", carriers(lambda c: {"fields": {c: 1}}), by_carrier),
    Site("function-alias", "ident", lambda cs: {"meta": {"functions": {c: "fx.Fn" for c in cs}}}, by_text),
    Site("meta-pkg", "ident", lambda cs: {"meta": {"pkg": cs[0]}, "services": {"s": dict(VALID_SVC)}}, lambda e, c: {0} if e else set(), single=True),
    Site("meta-container-type", "ident", lambda cs: {"meta": {"container_type": cs[0]}, "services": {"s": dict(VALID_SVC)}}, lambda e, c: {0} if e else set(), single=True),
    Site("meta-container-constructor", "ident", lambda cs: {"meta": {"container_constructor": cs[0]}, "services": {"s": dict(VALID_SVC)}}, lambda e, c: {0} if e else set(), single=True),
    Site("import-path", "import", lambda cs: {"meta": {"imports": {"a%d" % i: c for i, c in enumerate(cs)}}}, by_text),
    Site("constructor", "func", carriers(lambda c: {"constructor": c}), by_carrier),
    Site("decorator", "func", lambda cs: {"decorators": [{"tag": "t", "decorator": c} for c in cs]}, by_dec_index),
    Site("function-go", "func", lambda cs: {"meta": {"functions": {"f%d" % i: c for i, c in enumerate(cs)}}}, by_text),
    Site("type", "type", carriers(lambda c: {"type": c}), by_carrier),
    Site("value", "value", carriers(lambda c: {"value": c, "constructor": None}), by_carrier),
    Site("decorator-tag", "dtag", lambda cs: {"decorators": [{"tag": c, "decorator": "Decorate"} for c in cs]}, by_dec_index),
    Site("constructor-arg", "arg", carriers(lambda c: {"arguments": [c]}), by_carrier, flags=("--ignore-missing-services",)),
    Site("call-arg", "arg", carriers(lambda c: {"calls": [["SetX", ["ok", c]]]}), by_carrier, flags=("--ignore-missing-services",)),
    Site("field-value", "arg", carriers(lambda c: {"fields": {"F1": c}}), by_carrier, flags=("--ignore-missing-services",)),
    Site("decorator-arg", "arg", lambda cs: {"decorators": [{"tag": "t", "decorator": "Decorate", "arguments": [c]} for c in cs]}, by_dec_index,
         flags=("--ignore-missing-services",)),
]

POSITIONS = ["name", "ident", "import", "func", "type", "value", "dtag", "arg"]


def clean(doc):
    """drop None-valued keys (used to unset the default constructor of a carrier)"""
    if isinstance(doc, dict):
        return {k: clean(v) for k, v in doc.items() if v is not None}
    if isinstance(doc, list):
        return [clean(x) for x in doc]
    return doc


def run_batches(pool, wd, site, batches, rng, tag):
    jobs = []
    for bi, cs in enumerate(batches):
        d = os.path.join(wd, "%s-%s-%05d" % (tag, site.name, bi))
        os.makedirs(d)
        with open(os.path.join(d, "in.yaml"), "w") as f:
            f.write(concretise.emit(clean(site.build(cs)), rng) + "\n")
        jobs.append({"id": bi, "dir": d, "args": ["-i", "in.yaml", "-o", "out.go"] + list(site.flags), "version": "dev-main",
                     "buildinfo": "verif", "out": "out.go"})
    return pool.run_all(jobs)


def run_c11(tier):
    pid = "C11"
    t0 = time.time()
    rng = random.Random(core.seed())
    v = core.Verdict(pid)
    wd = core.subdir("c11")
    pool = core.DriverPool()
    stats = {}
    tot_states = tot_gen = n_cand = n_reject_model = 0
    samples = []
    try:
        for pos in POSITIONS:
            r = core.run_tlc("MC_Grammar.tla", "MC_Grammar_%s_%s.cfg" % (pos, tier), timeout=3000)
            tot_states += r.states
            tot_gen += r.generated
            cases = [c for c in r.emitted if c["s"]]            # the empty string is a YAML-level matter
            texts = {}
            for c in cases:
                t = conc(c["s"], rng)
                if t not in texts:
                    texts[t] = c
            items = sorted(texts.items())
            rng.shuffle(items)
            sites = [s for s in SITES if s.position == pos]
            for site in sites:
                if site.single:
                    sub = items[: (150 if tier == "quick" else 1500)]
                    batches = [[t] for t, _ in sub]
                    metas = [[c] for _, c in sub]
                else:
                    sub = items if (tier == "thorough" or len(items) <= 20000) else items[:20000]
                    B = 200
                    batches = [[t for t, _ in sub[i:i + B]] for i in range(0, len(sub), B)]
                    metas = [[c for _, c in sub[i:i + B]] for i in range(0, len(sub), B)]
                res = run_batches(pool, wd, site, batches, rng, "b")
                suspects = []
                for cs, ms, rs in zip(batches, metas, res):
                    if rs["exit"] not in (0, 1):
                        v.disagree("abnormal-exit", {"site": site.name, "candidates": cs[:5]}, {"exit": rs["exit"], "panic": rs.get("panic", "")[:400]})
                        continue
                    rep = core.Report(rs["stdout"])
                    ft = rep.failing_top()
                    if rs["exit"] == 1 and (ft is None or ft["name"] not in ("Compile",)):
                        v.disagree("unexpected-failing-step", {"site": site.name, "candidates": cs[:5]}, {"step": ft, "errors": rep.errors[:3]})
                        continue
                    fl = site.flagged(rep.errors if rs["exit"] == 1 else [], cs)
                    for i, (t, m) in enumerate(zip(cs, ms)):
                        n_cand += 1
                        if not m["ok"]:
                            n_reject_model += 1
                        if (i in fl) == m["ok"]:
                            suspects.append((t, m))
                # confirmation: each suspect alone
                if suspects:
                    res2 = run_batches(pool, wd, site, [[t] for t, _ in suspects], rng, "s")
                    for (t, m), rs in zip(suspects, res2):
                        rejected = rs["exit"] != 0
                        if rejected == m["ok"]:
                            v.disagree("grammar-verdict", {"site": site.name, "candidate": t, "symbols": m["s"]},
                                       {"model_in_language": m["ok"], "tool_rejects": rejected, "class": m.get("cls", ""),
                                        "errors": core.Report(rs["stdout"]).errors[:3]},
                                       tags={"site": site.name, "model_ok": m["ok"], "first": m["s"][0], "class": m.get("cls", ""),
                                             "deref": "ST" in m["s"]})
                        elif rejected and not any(t in e for e in core.Report(rs["stdout"]).errors):
                            # rejected, and the diagnostic does not name the key at all
                            v.disagree("violation-not-named-in-batch", {"site": site.name, "candidate": t}, {"errors": core.Report(rs["stdout"]).errors[:3]},
                                       tags={"site": site.name})
                stats[site.name] = {"position": pos, "candidates": sum(len(b) for b in batches), "tool_runs": len(batches), "resolved_alone": len(suspects)}
            acc = [t for t, c in items if c["ok"]][:2]
            rej = [t for t, c in items if not c["ok"]][:2]
            samples.append({"position": pos, "in_language": acc, "not_in_language": rej})
        n_multi = multi_defects(v, pool, wd, rng, tier) + scope_keywords(v, pool, wd, rng)
        n_kinds = node_kinds(v, pool, wd, rng, tier)
    finally:
        pool.close()
    shutil.rmtree(wd, ignore_errors=True)
    if n_cand < 1000 or n_reject_model < 100:
        raise core.InfraError("degenerate exploration: %d candidates, %d outside the language" % (n_cand, n_reject_model))
    rc = v.finish(tier, t0)
    core.write_evidence(pid, tier, "model_checking", {
        "states": tot_states, "transitions": tot_gen, "traces_validated_against_impl": n_cand,
        "samples": samples[:4],
        "evaluations": n_cand + n_multi + n_kinds, "distinct_nontrivial": n_reject_model + n_multi + n_kinds, "wrong_node_kind_configurations": n_kinds,
        "rule": "per grammar position every symbol string up to the bound of MC_Grammar_<position>_%s.cfg, instantiated and placed in each YAML "
                "site of the position (%d sites); non-trivial = outside the documented language (must be flagged, naming the key); "
                "plus every subset of up to 3 of the structural defect kinds on different keys (all must be reported), the todo exemption, and "
                "every node of a complete base document replaced by a YAML node of an incompatible kind (MC_Confusion: must be rejected)" % (tier, len(SITES)),
        "exhaustive": True, "sites": stats, "multi_defect_configurations": n_multi,
        "known_findings_hit": {k: n for k, (f, n) in v.known_hit.items()},
    }, time.time() - t0, violations=len(v.violations), assumptions=[
        "the recognisers are written from docs/*.md and the comments in regex/consts.go; one concrete instantiation per symbol class and seed",
        "the three single-valued meta positions are sampled, all other sites are exhaustive within the bound",
        "reserved / Must-prefixed / InContext-suffixed / duplicate getters are decided by the API family (C13)"])
    return rc


# --------------------------------------------------------------------------- scope keywords

def scope_keywords(v, pool, wd, rng):
    """the scope keyword set of Grammar.tla against near misses (case, separators, padding, the empty string)"""
    r = core.run_tlc("MC_Scope.tla", "MC_Scope.cfg", workers=1, timeout=300)
    jobs = []
    for i, c in enumerate(r.emitted):
        d = os.path.join(wd, "sc%03d" % i)
        os.makedirs(d)
        with open(os.path.join(d, "in.yaml"), "w") as f:
            f.write("services:\n  s:\n    constructor: NewA\n    scope: %s\n" % concretise.yaml_str(c["s"]))
        jobs.append({"id": i, "dir": d, "args": ["-i", "in.yaml", "-o", "out.go"], "version": "dev-main", "buildinfo": "verif", "out": "out.go"})
    res = pool.run_all(jobs)
    for c, rs in zip(r.emitted, res):
        if (rs["exit"] == 0) != c["ok"]:
            v.disagree("scope-keyword", {"scope": c["s"]}, {"model_in_language": c["ok"], "exit": rs["exit"],
                                                           "errors": core.Report(rs["stdout"]).errors[:2]})
    return len(r.emitted)


# --------------------------------------------------------------------------- wrong YAML node kinds

def node_kinds(v, pool, wd, rng, tier):
    """MC_Confusion: every node of a complete base document replaced by every YAML node kind; where the specification says the
    replacement cannot be a configuration (collection vs scalar vs the other collection) the tool must reject it"""
    from . import totality
    r = totality.confusion_cases(tier)
    pos_list = totality.positions(totality.BASE_DOC)
    def nested(c):       # a pair where one position lies below the other is not two independent replacements
        ps = [pos_list[s_["p"] - 1] for s_ in c["subs"]]
        return any(a != b and a == b[:len(a)] for a in ps for b in ps)
    cases = [c for c in r.emitted if c["reject"] and not nested(c)]
    jobs = []
    for i, c in enumerate(cases):
        subs = [(pos_list[s_["p"] - 1], s_["k"]) for s_ in c["subs"]]
        d = os.path.join(wd, "k%05d" % i)
        os.makedirs(d)
        with open(os.path.join(d, "in.yaml"), "w") as f:
            f.write(totality.confusion_yaml(subs, rng))
        jobs.append({"id": i, "dir": d, "args": ["-i", "in.yaml", "-o", "out.go"], "version": "1.0.0", "buildinfo": "verif", "out": "out.go"})
    res = pool.run_all(jobs)
    for c, j, rs in zip(cases, jobs, res):
        if rs["exit"] == 0:
            v.disagree("wrong-node-kind-accepted", {"subs": [(list(pos_list[s_["p"] - 1]), s_["k"]) for s_ in c["subs"]],
                                                   "yaml": open(os.path.join(j["dir"], "in.yaml")).read()[:1500]}, {"exit": 0},
                       tags={"kinds": sorted(s_["k"] for s_ in c["subs"])})
        elif rs["exit"] != 1:
            v.disagree("abnormal-exit", {"subs": c["subs"]}, {"exit": rs["exit"], "panic": rs.get("panic", "")[:300]})
    return len(cases)


# --------------------------------------------------------------------------- simultaneous defects

DEFECTS = {
    # kind -> (patch applied to the document, text that must be mentioned, in how many diagnostics at least)
    "bad-param-name": (lambda d: d["parameters"].__setitem__("bad name", 1), "bad name", 1),
    "param-not-primitive": (lambda d: d["parameters"].__setitem__("plist", [1, 2]), "plist", 1),
    "bad-service-name": (lambda d: d["services"].__setitem__("bad..svc", dict(VALID_SVC)), "bad..svc", 1),
    "no-creation-method": (lambda d: d["services"].__setitem__("d1", {"getter": "GetD1"}), "d1", 1),
    "ctor-and-value": (lambda d: d["services"].__setitem__("d2", {"constructor": "NewA", "value": "Var"}), "d2", 1),
    "args-without-ctor": (lambda d: d["services"].__setitem__("d3", {"value": "Var", "arguments": [1]}), "d3", 1),
    "duplicate-tag": (lambda d: d["services"].__setitem__("d4", {"constructor": "NewA", "tags": ["x", "x"]}), "d4", 1),
    "duplicate-tag-other-priority": (lambda d: d["services"].__setitem__("d13", {"constructor": "NewA", "tags": ["y", {"name": "y", "priority": 9}]}), "d13", 1),
    "bad-type": (lambda d: d["services"].__setitem__("d5", {"constructor": "NewA", "type": "**T"}), "d5", 1),
    "bad-field-name": (lambda d: d["services"].__setitem__("d6", {"constructor": "NewA", "fields": {"a-b": 1}}), "d6", 1),
    "arg-not-primitive": (lambda d: d["services"].__setitem__("d7", {"constructor": "NewA", "arguments": [[1]]}), "d7", 1),
    "bad-meta-pkg": (lambda d: d["meta"].__setitem__("pkg", "my pkg"), "my pkg", 1),
    "bad-import": (lambda d: d["meta"]["imports"].__setitem__("imp", "a//b"), "a//b", 1),
    "bad-decorator-method": (lambda d: d["decorators"].append({"tag": "t", "decorator": "not a func"}), "not a func", 1),
    "must-getter-prefix": (lambda d: d["services"].__setitem__("d8", {"constructor": "NewA", "getter": "MustX"}), "d8", 1),
    "reserved-getter": (lambda d: d["services"].__setitem__("d9", {"constructor": "NewA", "getter": "GetParam"}), "d9", 1),
    # violations that are detected by later compile sub-steps (parameters, services, decorators)
    "bad-param-token": (lambda d: d["parameters"].__setitem__("tok", "50%"), "tok", 1),
    "bad-service-ref-arg": (lambda d: d["services"].__setitem__("d12", {"constructor": "NewA", "arguments": ["@"]}), "d12", 1),
    "bad-value-arg-in-decorator": (lambda d: d["decorators"].append({"tag": "t", "decorator": "Deco", "arguments": ["!value  "]}), "Deco", 1),
    # a rule that compares services with each other, alone and while one of the services has a defect of its own
    "duplicate-getter": (lambda d: (d["services"].__setitem__("d14a", {"constructor": "NewA", "getter": "GetDupA"}),
                                    d["services"].__setitem__("d14b", {"constructor": "NewA", "getter": "GetDupA"})), "GetDupA", 1),
    "duplicate-getter-beside-own-defect": (lambda d: (d["services"].__setitem__("d15a", {"constructor": "NewA", "getter": "GetDupB", "tags": ["x", "x"]}),
                                                      d["services"].__setitem__("d15b", {"constructor": "NewA", "getter": "GetDupB", "type": "**T"})), "GetDupB", 1),
    # two independent violations on ONE key: both must be reported
    "param-bad-name-and-not-primitive": (lambda d: d["parameters"].__setitem__("two defects", [1, 2]), "two defects", 2),
    "service-bad-type-and-bad-value": (lambda d: d["services"].__setitem__("d10", {"type": "**T", "value": "a b"}), "d10", 2),
    "field-bad-name-and-not-primitive": (lambda d: d["services"].__setitem__("d11", {"constructor": "NewA", "fields": {"a-b": [1]}}), "a-b", 2),
}


STAGE = {"bad-param-token": 2, "bad-service-ref-arg": 3, "bad-value-arg-in-decorator": 4}      # everything else: input validation (1)


def base_doc():
    return {"meta": {"imports": {"fx": "some/fx"}}, "parameters": {"ok": 1}, "services": {"s": dict(VALID_SVC)}, "decorators": []}


def multi_defects(v, pool, wd, rng, tier):
    kinds = sorted(DEFECTS)
    subsets = [c for k in (1, 2, 3) for c in itertools.combinations(kinds, k)]
    if tier == "quick":
        subsets = [s for i, s in enumerate(subsets) if len(s) < 3 or (i + core.seed()) % 4 == 0]
    jobs, docs = [], []
    for i, sub in enumerate(subsets):
        doc = base_doc()
        for k in sub:
            DEFECTS[k][0](doc)
        # services marked todo are exempt from attribute checks: the same defects on a todo service must NOT be reported
        d = os.path.join(wd, "m%05d" % i)
        os.makedirs(d)
        with open(os.path.join(d, "in.yaml"), "w") as f:
            f.write(concretise.emit(doc, rng) + "\n")
        jobs.append({"id": i, "dir": d, "args": ["-i", "in.yaml", "-o", "out.go"], "version": "dev-main", "buildinfo": "verif", "out": "out.go"})
        docs.append(doc)
    res = pool.run_all(jobs)
    for sub, doc, rs in zip(subsets, docs, res):
        if rs["exit"] != 1:
            v.disagree("defects-accepted", {"defects": sub}, {"exit": rs["exit"]}, tags={"defects": list(sub)})
            continue
        errs = core.Report(rs["stdout"]).errors
        for k in sub:
            key = DEFECTS[k][1]
            if sum(1 for e in errs if key in e) < DEFECTS[k][2]:
                first_stage = min(STAGE.get(x, 1) for x in sub)
                v.disagree("violation-not-reported", {"defects": sub}, {"missing": k, "key": key, "errors": errs[:8]},
                           tags={"missing": k, "masked_by_earlier_stage": STAGE.get(k, 1) > first_stage})
                break
    # todo exemption: attribute defects on a todo service are not reported, its name still is checked
    doc = base_doc()
    doc["services"]["t1"] = {"todo": True, "type": "**T", "getter": "MustX", "tags": ["x", "x"], "fields": {"a-b": 1}}
    doc["services"]["bad..todo"] = {"todo": True}
    d = os.path.join(wd, "todo")
    os.makedirs(d)
    with open(os.path.join(d, "in.yaml"), "w") as f:
        f.write(concretise.emit(doc, rng) + "\n")
    rs = pool.run_all([{"id": 0, "dir": d, "args": ["-i", "in.yaml", "-o", "out.go"], "version": "dev-main", "buildinfo": "verif", "out": "out.go"}])[0]
    errs = core.Report(rs["stdout"]).errors
    if rs["exit"] != 1 or not any("bad..todo" in e for e in errs):
        v.disagree("todo-service-name-not-checked", {"doc": "todo"}, {"exit": rs["exit"], "errors": errs[:5]})
    if any('"t1"' in e for e in errs):
        v.disagree("todo-service-attributes-checked", {"doc": "todo"}, {"errors": errs[:5]})
    # the exemption covers the rules that compare services with each other too: todo placeholders repeating the getter of a live
    # service (or of each other), carrying every other attribute defect the validators know, in an otherwise valid document: accepted
    # (what cannot even be unmarshalled - a scope keyword, the shape of a call or tag - is rejected before `todo` is looked at)
    doc = base_doc()
    doc["services"]["live"] = {"constructor": "NewA", "getter": "GetDup", "type": "*T"}
    doc["services"]["t2"] = {"todo": True, "getter": "GetDup"}
    doc["services"]["t3"] = {"todo": True, "getter": "GetDup", "must_getter": True, "type": "**T", "tags": ["x", "x"],
                             "constructor": "not a func", "value": "a b", "arguments": [[1]], "fields": {"a-b": [1]}, "calls": [["Set X", []]]}
    doc["services"]["t4"] = {"todo": True, "getter": "MustGetParam"}
    d = os.path.join(wd, "todo-ok")
    os.makedirs(d)
    with open(os.path.join(d, "in.yaml"), "w") as f:
        f.write(concretise.emit(doc, rng) + "\n")
    rs = pool.run_all([{"id": 0, "dir": d, "args": ["-i", "in.yaml", "-o", "out.go"], "version": "dev-main", "buildinfo": "verif", "out": "out.go"}])[0]
    if rs["exit"] != 0:
        v.disagree("todo-service-attributes-checked", {"doc": "todo-ok"}, {"exit": rs["exit"], "errors": core.Report(rs["stdout"]).errors[:5]})
    return len(subsets) + 2
