"""C09: multi-file merge semantics and split invariance (Merge.tla / MC_Merge.tla).
The tool's output on a list of files must be byte-identical to its output on the single file obtained by
concretising the MODEL's merge result; split configurations additionally go through layouts whose glob
order differs from the lexical order of the cleaned paths."""
import os
import random
import shutil
import time

from .. import core, concretise


def prove_merge():
    """TLAPS: the merge step of MergeCore.tla is associative, with Unset / the empty mapping as identity, for EVERY value
    (MergeProofs.tla).  tlapm has neither RECURSIVE nor the CommunityModules: it loads MergeCore (no fold) and the stubs
    of spec/tlapm_stubs for the two community modules Config.tla extends (no proof expands an operator of those)."""
    import re
    import tempfile
    d = tempfile.mkdtemp(prefix="tlaps-", dir=core.scratch())
    for f in ("MergeCore.tla", "Config.tla", "Names.tla", "MergeProofs.tla"):
        shutil.copy(os.path.join(core.SPEC, f), d)
    for f in os.listdir(os.path.join(core.SPEC, "tlapm_stubs")):
        shutil.copy(os.path.join(core.SPEC, "tlapm_stubs", f), d)
    p = core.sh(["tlapm", "--threads", str(min(8, core.NCPU)), "MergeProofs.tla"], cwd=d, check=False, timeout=900, env=dict(os.environ))
    m = re.search(r"All (\d+) obligations? proved", p.stdout)
    shutil.rmtree(d, ignore_errors=True)
    if not m:
        raise core.InfraError("TLAPS could not discharge MergeProofs:\n" + p.stdout[-2000:])
    return int(m.group(1))


def run_c09(tier):
    pid = "C09"
    t0 = time.time()
    obligations = prove_merge()
    rng = random.Random(core.seed())
    v = core.Verdict(pid)
    wd = core.subdir("c09")
    tot_states = tot_gen = 0
    cases = []
    for fam in ("assoc", "pairs", "split"):
        r = core.run_tlc("MC_Merge.tla", "MC_Merge_%s.cfg" % fam, timeout=1800)
        if r.violation:
            raise core.InfraError("TLC: design-level invariant violated in MC_Merge/%s:\n%s" % (fam, r.raw_tail[-2000:]))
        tot_states += r.states
        tot_gen += r.generated
        for c in r.emitted:
            c["family"] = fam
            cases.append(c)
    jobs = []
    for i, c in enumerate(cases):
        d = os.path.join(wd, "m%05d" % i)
        os.makedirs(os.path.join(d, "multi"))
        os.makedirs(os.path.join(d, "single"))
        args = []
        if c["layout"]:
            k = 0
            for pat in c["layout"]:
                for path in pat["paths"]:
                    p = os.path.join(d, "multi", path)
                    os.makedirs(os.path.dirname(p), exist_ok=True)
                    with open(p, "w") as f:
                        f.write(concretise.to_yaml(c["files"][k], rng, explicit=rng))
                    k += 1
                if "sub/.." in pat["pattern"]:
                    os.makedirs(os.path.join(d, "multi", "sub"), exist_ok=True)
                args += ["-i", pat["pattern"]]
        else:
            for k, fc in enumerate(c["files"]):
                with open(os.path.join(d, "multi", "f%d.yaml" % k), "w") as f:
                    f.write(concretise.to_yaml(fc, rng, explicit=rng))
                args += ["-i", "f%d.yaml" % k]
        with open(os.path.join(d, "single", "all.yaml"), "w") as f:
            f.write(concretise.to_yaml(c["expect"], rng))
        jobs.append({"id": 2 * i, "dir": os.path.join(d, "multi"), "args": args + ["-o", "out.go"], "version": "dev-main",
                     "buildinfo": "verif", "out": "out.go"})
        jobs.append({"id": 2 * i + 1, "dir": os.path.join(d, "single"), "args": ["-i", "all.yaml", "-o", "out.go"], "version": "dev-main",
                     "buildinfo": "verif", "out": "out.go"})
    pool = core.DriverPool()
    try:
        res = pool.run_all(jobs)
    finally:
        pool.close()
    n_acc = n_rej = n_nontrivial = 0
    for i, c in enumerate(cases):
        m, s = res[2 * i], res[2 * i + 1]
        if len(c["files"]) > 1:
            n_nontrivial += 1
        for x in (m, s):
            if x["exit"] not in (0, 1):
                v.disagree("abnormal-exit", {"family": c["family"]}, {"exit": x["exit"], "panic": x.get("panic", "")[:300]})
        if m["exit"] != s["exit"]:
            v.disagree("verdict-differs-from-merged-file", {"family": c["family"], "files": [concretise.to_yaml(f) for f in c["files"]],
                                                            "args": jobs[2 * i]["args"]},
                       {"multi_exit": m["exit"], "single_exit": s["exit"],
                        "errors": core.Report((m if m["exit"] else s)["stdout"]).errors[:4]})
            continue
        if m["exit"] == 0:
            n_acc += 1
            if m["post"].get("sha") != s["post"].get("sha"):
                v.disagree("output-differs-from-merged-file", {"family": c["family"], "files": [concretise.to_yaml(f) for f in c["files"]],
                                                               "merged": concretise.to_yaml(c["expect"]), "args": jobs[2 * i]["args"]},
                           {"multi": m["post"], "single": s["post"]})
        else:
            n_rej += 1
            em, es = core.Report(m["stdout"]).errors, core.Report(s["stdout"]).errors
            if em != es:
                v.disagree("diagnostics-differ-from-merged-file", {"family": c["family"], "files": [concretise.to_yaml(f) for f in c["files"]]},
                           {"multi": em[:5], "single": es[:5]})
    shutil.rmtree(wd, ignore_errors=True)
    if n_acc < 10 or n_nontrivial < 10:
        raise core.InfraError("degenerate exploration: accepted=%d multi-file=%d" % (n_acc, n_nontrivial))
    rc = v.finish(tier, t0)
    mid = next(c for c in cases if c["family"] == "split" and len(c["files"]) >= 3)
    core.write_evidence(pid, tier, "model_checking", {
        "states": tot_states, "transitions": tot_gen, "traces_validated_against_impl": len(cases),
        "samples": [{"layout": mid["layout"], "files": [concretise.to_yaml(f) for f in mid["files"]]}],
        "evaluations": 2 * len(cases), "distinct_nontrivial": n_nontrivial,
        "rule": "family pairs: a base file and a file overriding one or two attributes (every attribute, both orders, appended lists, "
                "identical repeated entries, new keys, the empty file), also three files; family split: rich configurations cut into k ordered "
                "pieces laid out over 10 layouts of files and -i patterns (glob order != lexical order of cleaned paths, ./ and ../ and // in "
                "patterns, pattern order vs name order); for each the tool's output on the file list must be byte-identical to its output on "
                "the single file concretised from Merge.tla's result (diagnostics identical when rejected); family assoc (13824 triples) is "
                "checked on the model only; non-trivial = more than one file",
        "exhaustive": True, "accepted": n_acc, "rejected_consistently": n_rej,
        "design_invariants_checked_by_tlc": ["Associative", "Identity", "SplitBack"],
        "tlaps": {"module": "MergeProofs.tla", "obligations_proved": obligations,
                  "theorems": "LaterAssoc, LaterIdentity, LaterKeepsOrOverrides, MergeFnDomain, MergeFnAssoc, MergeFnIdentity, ArgsAssoc, "
                              "AppendAssoc, SvcScalarAssoc: one merge step is associative attribute by attribute for every value, not only "
                              "the enumerated triples"},
        "known_findings_hit": {k: n for k, (f, n) in v.known_hit.items()},
    }, time.time() - t0, violations=len(v.violations), assumptions=[
        "the binding of the code's merge to Merge.tla is through byte-identical output of the tool on merged-by-tool vs merged-by-model input",
        "file layouts are the ten listed in MC_Merge.tla"])
    return rc
