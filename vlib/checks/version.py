"""C18: version compatibility gate. TLC enumerates the (B, V) grid from spec/MC_Version.tla with the
verdict Gate(B, V) demands; each pair is run in-process (B given to cmd.NewBuildCmd the way main.go does)
and, for v-prefixed / non-semver builds, with real binaries linked with -X main.version=B."""
import json
import os
import random
import shutil
import subprocess
import time

from .. import core

CFG_BODY = "services:\n  s1: {constructor: NewA}\n"

MALFORMED_YAML = {
    "vprefixed": 'version: "v1.2.3"\n',
    "integer": "version: 5\n",
    "float": "version: 1.2\n",
    "sequence": "version: [1, 2, 3]\n",
    "garbage": 'version: "one.two.three"\n',
    "empty": 'version: ""\n',
    "fourparts": 'version: "1.2.3.4"\n',
    "leadingzero": 'version: "01.2.3"\n',
    "mapping": "version: {major: 1}\n",
    "bool": "version: true\n",
}


def semver_str(v):
    s = "%d.%d.%d" % (v["maj"], v["min"], v["pat"])
    if v["pre"]:
        s += "-rc.1"
    if v["bld"]:
        s += "+build.5"
    return s


def build_str(B):
    """the value of main.version (what ldflags inject)"""
    k = B["kind"]
    if k == "semver":
        return semver_str(B["v"])
    if k == "vsemver":
        return "v" + semver_str(B["v"])
    return {"devel": "devel", "dev-main": "dev-main", "empty": ""}[k]


def cmd_version(B):
    """what main.go passes to cmd.NewBuildCmd: a valid v-prefixed semver loses its prefix; an empty
    main.version leaves go-version's default ("devel" without VCS info)."""
    k = B["kind"]
    if k in ("semver", "vsemver"):
        return semver_str(B["v"])
    return {"devel": "devel", "dev-main": "dev-main", "empty": "devel"}[k]


def decl_yaml(V, rng):
    k = V["kind"]
    if k == "absent":
        return CFG_BODY
    if k == "semver":
        s = semver_str(V["v"])
        q = rng.choice(['"%s"', "'%s'", "%s"])     # unquoted 1.2.3 is a YAML string as well
        return "version: " + (q % s) + "\n" + CFG_BODY
    return MALFORMED_YAML[k] + CFG_BODY


def classify(res):
    if res["exit"] == 0:
        return "accept"
    rep = core.Report(res["stdout"])
    ft = rep.failing_top()
    if ft is None:
        return "other"
    if ft["name"] == "Read config":
        return "parse"
    if ft["name"] == "Compile":          # the configuration is valid apart from its version: whatever Compile reports is the gate
        return "version"
    return "other:" + ft["name"]


def run_c18(tier):
    pid = "C18"
    t0 = time.time()
    rng = random.Random(core.seed())
    v = core.Verdict(pid)
    r = core.run_tlc("MC_Version.tla", "MC_Version_%s.cfg" % tier, workers=1, timeout=900)
    if r.violation:
        raise core.InfraError("TLC: design-level invariant violated in MC_Version:\n" + r.raw_tail[-2000:])
    cases = r.emitted
    wd = core.subdir("c18")
    jobs = []
    for i, c in enumerate(cases):
        d = os.path.join(wd, "v%06d" % i)
        os.makedirs(d)
        text = decl_yaml(c["V"], rng)
        if i % 4 == 1 and text != CFG_BODY:
            # the version declared in a file of its own, among several matched by one pattern (first or last in merge order)
            first = rng.random() < 0.5
            vline, rest = text.split("\n", 1)
            with open(os.path.join(d, "00_version.yaml" if first else "90_version.yaml"), "w") as f:
                f.write(vline + "\n")
            with open(os.path.join(d, "10_app.yaml"), "w") as f:
                f.write(rest)
            args = ["-i", "*.yaml", "-o", "out.go"]
        else:
            with open(os.path.join(d, "in.yaml"), "w") as f:
                f.write(text)
            args = ["-i", "in.yaml", "-o", "out.go"]
        jobs.append({"id": i, "dir": d, "args": args, "version": cmd_version(c["B"]),
                     "buildinfo": "verif", "out": "out.go"})
    pool = core.DriverPool()
    try:
        results = pool.run_all(jobs)
    finally:
        pool.close()
    counts = {}
    for c, j, res in zip(cases, jobs, results):
        got = classify(res)
        counts[c["exp"]] = counts.get(c["exp"], 0) + 1
        if res["exit"] not in (0, 1):
            v.disagree("abnormal-exit", c, {"exit": res["exit"], "panic": res.get("panic", "")[:500]})
        elif got != c["exp"]:
            v.disagree("gate-verdict", c, {"B": j["version"], "args": j["args"], "yaml": semver_str(c["V"]["v"]) if c["V"]["kind"] == "semver" else c["V"]["kind"],
                                           "expected": c["exp"], "got": got, "errors": core.Report(res["stdout"]).errors[:3]},
                       tags={"expected": c["exp"], "got": got, "Bkind": c["B"]["kind"], "Vkind": c["V"]["kind"]})
    # real binaries: the route through main.go (ldflags, v prefix stripping, non-semver labels)
    bkeys = {}
    for c in cases:
        bkeys.setdefault(build_str(c["B"]), []).append(c)
    pick = [k for k in bkeys if k.startswith("v")]
    rng.shuffle(pick)
    pick = pick[: (3 if tier == "quick" else 10)] + [k for k in bkeys if not k[:1].isdigit() and not k.startswith("v")]
    n_proc = 0
    for bs in pick:
        tool = core.build_tool(bs, name="gv")
        cs = bkeys[bs]
        if tier == "quick":
            cs = rng.sample(cs, min(len(cs), 25))
        for k, c in enumerate(cs):
            d = os.path.join(wd, "p_%d_%d" % (n_proc, k))
            os.makedirs(d)
            with open(os.path.join(d, "in.yaml"), "w") as f:
                f.write(decl_yaml(c["V"], rng))
            p = subprocess.run([tool, "build", "-i", "in.yaml", "-o", "out.go"], cwd=d, stdout=subprocess.PIPE,
                               stderr=subprocess.PIPE, timeout=60, env=dict(os.environ, NO_COLOR="1"))
            n_proc += 1
            got = classify({"exit": 0 if p.returncode == 0 else 1, "stdout": p.stdout.decode("utf8", "replace")})
            if p.returncode not in (0, 1):
                v.disagree("abnormal-exit", c, {"exit": p.returncode, "main.version": bs})
            elif got != c["exp"]:
                v.disagree("gate-verdict-binary", c, {"main.version": bs, "expected": c["exp"], "got": got,
                                                      "yaml": open(os.path.join(d, "in.yaml")).read().split("\n")[0]},
                           tags={"expected": c["exp"], "got": got, "Bkind": c["B"]["kind"], "Vkind": c["V"]["kind"]})
    shutil.rmtree(wd, ignore_errors=True)
    if len(counts) < 3 or min(counts.values()) < 5:
        raise core.InfraError("degenerate exploration: %s" % counts)
    rc = v.finish(tier, t0)
    mid = cases[len(cases) // 2]
    core.write_evidence(pid, tier, "model_checking", {
        "states": r.states, "transitions": r.generated, "traces_validated_against_impl": 0,
        "samples": [{"B": build_str(mid["B"]), "V": mid["V"], "expected": mid["exp"]}],
        "evaluations": len(cases) + n_proc, "distinct_nontrivial": counts.get("version", 0) + counts.get("parse", 0),
        "rule": "every (B, V) pair of the grid in MC_Version_%s.cfg, non-semver builds and malformed V included; in-process with B passed "
                "as main.go passes it, plus real binaries linked with -X main.version=B for v-prefixed and non-semver builds; "
                "non-trivial = the specification expects a rejection" % tier,
        "exhaustive": True, "expected_verdict_counts": counts, "real_process_runs": n_proc, "binaries": pick,
        "design_invariants_checked_by_tlc": ["PatchIrrelevant"],
        "known_findings_hit": {k: n for k, (f, n) in v.known_hit.items()},
    }, time.time() - t0, violations=len(v.violations),
        assumptions=["shorthand versions such as \"1.2\" (accepted by x/mod/semver, not by semver.org) are not enumerated",
                     "verdict classes are read from the failing step and the word 'version' in the diagnostics"])
    return rc
