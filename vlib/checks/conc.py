"""C20: the generated container under concurrent use.

R1  ContainerConc.tla: all interleavings of small instances (2-3 goroutines, shared / contextual / non_shared
    services, a parameter), invariants ConstructedOnce, EvaluatedOnce, ContextIsolation, SharedAgreed,
    MutualExclusion, NoDeadlock; the cyclic instance must deadlock (negative control).
R3  the probe, built with -race, runs G goroutines with a common start barrier on containers generated from
    model-enumerated configurations (graphs x scopes) and hand-made ones (multi-chunk patterns, env functions,
    default scope over a contextual service, tags, decorators, getters); events are numbered by one process-wide
    counter inside the fixture constructors / parameter functions and at operation return; TLC validates the
    recorded runs against Trace_Conc.tla. A data race report is a violation by itself."""
import json
import os
import random
import shutil
import time

from .. import core, concretise, probe as probemod

HAND = [
    # multi-chunk patterns evaluated concurrently, env functions, default scope over a contextual service
    {"name": "patterns-env", "env": {"VERIF_SET": "envvalue", "VERIF_NUM": "17"},
     "doc": {"meta": {"imports": {"fx": "probe.test/fx"}, "functions": {"fn": "fx.Fn"}},
             "parameters": {"host": "localhost", "port": 8080, "addr": "%host%:%port%", "url": "http://%addr%/%%", "cnt": "%fn()%",
                            "e1": '%env("VERIF_SET")%', "e2": '%envInt("VERIF_NUM")%', "e3": 'x-%env("VERIF_SET")%-%envInt("VERIF_NUM")%',
                            # other names for the function-backed parameter: one evaluation, whatever name asks first
                            "cntAlias": "%cnt%", "cntAlias2": "%cntAlias%", "cntIn": "n=%cnt%"},
             "services": {
                 "sh": {"constructor": "fx.NewA", "arguments": ["%url%", "%cnt%"], "scope": "shared", "getter": "GetSh", "type": "*fx.T"},
                 "cx": {"constructor": "fx.NewB", "arguments": ["@sh", "%addr%-%e3%"], "scope": "contextual", "tags": ["t"]},
                 "ns": {"constructor": "fx.NewC", "arguments": ["@cx", "%host%/%port%/%e1%"], "scope": "non_shared", "tags": [{"name": "t", "priority": 2}]},
                 "df": {"constructor": "fx.NewD", "arguments": ["@cx", "@sh", "%e2%"], "getter": "GetDf", "type": "*fx.T"},     # no scope: contextual by derivation
                 "ag": {"constructor": "fx.NewZ", "arguments": ["!tagged t", "@df", "%cntAlias2%", "%cntIn%"]}},
             "decorators": [{"tag": "t", "decorator": "fx.Decorate", "arguments": ["%addr%"]}]},
     "eff": {"sh": "shared", "cx": "contextual", "ns": "non_shared", "df": "contextual", "ag": "contextual"},
     "made": {"sh": "probe.test/fx.NewA", "cx": "probe.test/fx.NewB", "ns": "probe.test/fx.NewC", "df": "probe.test/fx.NewD", "ag": "probe.test/fx.NewZ"},
     "params": ["host", "port", "addr", "url", "cnt", "e1", "e2", "e3", "cntAlias", "cntAlias2", "cntIn"], "fns": ["probe.test/fx.Fn"], "getters": ["GetSh", "GetDf"], "tags": ["t"]},
    # a cold container whose first operations all read the environment
    {"name": "env-cold", "env": {"VERIF_SET": "envvalue", "VERIF_NUM": "17", "VERIF_A": "a", "VERIF_B": "b"},
     "doc": {"meta": {"imports": {"fx": "probe.test/fx"}},
             "parameters": {"e1": '%env("VERIF_SET")%', "e2": '%envInt("VERIF_NUM")%', "e3": 'x-%env("VERIF_A")%-%env("VERIF_B")%', "e4": '%env("VERIF_A")%',
                            "e5": '%env("VERIF_B")%', "e6": '%env("VERIF_UNSET_Q", "d")%', "e7": '%envInt("VERIF_UNSET_R", 5)%', "e8": '%e1%/%e4%/%e5%'},
             "services": {"se": {"constructor": "fx.NewA", "arguments": ["%e1%", "%e2%", "%e3%", '%env("VERIF_A")%'], "scope": "non_shared"},
                          "sf": {"constructor": "fx.NewB", "arguments": ["%e8%", '%envInt("VERIF_NUM")%'], "scope": "contextual"},
                          # no scope, and a contextual service reached ONLY through a tag: contextual by derivation (C20-r7-m1
                          # fixed the scope at generation time following @service edges alone)
                          "ct": {"constructor": "fx.NewC", "scope": "contextual", "tags": ["t"]},
                          "tg": {"constructor": "fx.NewD", "arguments": ["!tagged t"]}}},
     "eff": {"se": "non_shared", "sf": "contextual", "ct": "contextual", "tg": "contextual"},
     "made": {"se": "probe.test/fx.NewA", "sf": "probe.test/fx.NewB", "ct": "probe.test/fx.NewC", "tg": "probe.test/fx.NewD"},
     "params": ["e1", "e2", "e3", "e4", "e5", "e6", "e7", "e8"], "fns": [], "getters": [], "tags": ["t"], "param_weight": 0.6},
    # services given by value (composite literals, evaluated at every construction), told apart by an injected field
    {"name": "values", "env": {},
     "doc": {"meta": {"imports": {"fx": "probe.test/fx"}},
             "services": {
                 "vc": {"value": "&fx.S{}", "scope": "contextual", "fields": {"F1": "value-vc", "F2": "@vs"}},
                 "vn": {"value": "&fx.S{}", "scope": "non_shared", "fields": {"F1": "value-vn", "F2": "@vc"}},
                 "vs": {"value": "&fx.S{}", "fields": {"F1": "value-vs"}},
                 "vg": {"value": "fx.Var", "scope": "non_shared"},
                 "hold": {"constructor": "fx.NewA", "arguments": ["@vc", "@vn", "@vs", "@vg"]},
                 "top": {"constructor": "fx.NewB", "arguments": ["@vn", "@hold"], "scope": "non_shared"}}},
     "eff": {"vc": "contextual", "vn": "non_shared", "vs": "shared", "hold": "contextual", "top": "non_shared"},
     "made": {"vc": "value-vc", "vn": "value-vn", "vs": "value-vs", "hold": "probe.test/fx.NewA", "top": "probe.test/fx.NewB"},
     "params": [], "fns": [], "getters": [], "tags": [], "extra_ids": ["vg"]},
    # cold containers hit through their getters (explicit and derived scopes)
    {"name": "getters", "env": {}, "getter_weight": 0.7,
     "doc": {"meta": {"imports": {"fx": "probe.test/fx"}},
             "services": {
                 "g1": {"constructor": "fx.NewA", "scope": "shared", "getter": "G1", "type": "*fx.T"},
                 "g2": {"constructor": "fx.NewB", "arguments": ["@g1"], "getter": "G2", "type": "*fx.T"},
                 "g3": {"constructor": "fx.NewC", "arguments": ["@g2"], "scope": "contextual", "getter": "G3", "type": "*fx.T"},
                 "g4": {"constructor": "fx.NewD", "arguments": ["@g3", "@g1"], "scope": "non_shared", "getter": "G4", "type": "*fx.T"},
                 "g5": {"value": "&fx.S{}", "scope": "shared", "getter": "G5", "type": "*fx.T", "fields": {"F1": "value-g5"}}}},
     "eff": {"g1": "shared", "g2": "shared", "g3": "contextual", "g4": "non_shared", "g5": "shared"},
     "made": {"g1": "probe.test/fx.NewA", "g2": "probe.test/fx.NewB", "g3": "probe.test/fx.NewC", "g4": "probe.test/fx.NewD", "g5": "value-g5"},
     "params": [], "fns": [], "getters": ["G1", "G2", "G3", "G4", "G5"], "tags": []},
    # a configuration in several files: services re-opened by a later file keep what the later file does not mention (Merge.tla)
    {"name": "reopened", "env": {},
     "docs": [{"meta": {"imports": {"fx": "probe.test/fx"}},
               "services": {"ses": {"constructor": "fx.NewA", "scope": "contextual"}, "tmp": {"constructor": "fx.NewB", "scope": "non_shared"},
                            "one": {"constructor": "fx.NewC", "scope": "shared"}, "cart": {"constructor": "fx.NewD", "arguments": ["@ses"], "scope": "contextual"}}},
              {"services": {"ses": {"tags": ["t"]}, "tmp": {"calls": [["SetX", [1]]]}, "one": {"fields": {"F1": "x"}},
                            "cart": {"scope": "contextual", "tags": ["t"]}}},
              {"services": {"use": {"constructor": "fx.NewZ", "arguments": ["@ses", "@tmp", "@one"], "scope": "non_shared"}}}],
     "eff": {"ses": "contextual", "tmp": "non_shared", "one": "shared", "cart": "contextual", "use": "non_shared"},
     "made": {"ses": "probe.test/fx.NewA", "tmp": "probe.test/fx.NewB", "one": "probe.test/fx.NewC", "cart": "probe.test/fx.NewD", "use": "probe.test/fx.NewZ"},
     "params": [], "fns": [], "getters": [], "tags": ["t"]},
]


def made_of(body):
    """composite literals carry no constructor name: an injected string field tells them apart"""
    m = body["made"]
    if m == "" and isinstance(body.get("F1"), dict) and body["F1"].get("k") == "lit":
        return body["F1"]["v"]
    return m


def reach(term, heap, acc):
    if not isinstance(term, dict):
        return
    k = term.get("k")
    if k == "obj":
        oid = str(term["id"])
        b = heap.get(oid)
        if b is None or (made_of(b), term["id"]) in acc:
            return
        acc.add((made_of(b), term["id"]))
        for x in b["args"]:
            reach(x, heap, acc)
        for f in ("F1", "F2", "f3", "prev"):
            reach(b.get(f), heap, acc)
        if b.get("payload"):
            reach(b["payload"]["svc"], heap, acc)
        for e in b.get("log") or []:
            for x in e["args"]:
                reach(x, heap, acc)
    elif k == "list":
        for x in term["items"]:
            reach(x, heap, acc)


def ops_for(entry, rng, nctx):
    svcs = sorted(entry["eff"]) + entry.get("extra_ids", [])
    ops = []
    gw = entry.get("getter_weight", 0)
    for _ in range(4):
        c = rng.random()
        if entry.get("param_weight") and rng.random() < entry["param_weight"]:
            ops.append({"op": "GetParam", "id": rng.choice(entry["params"])})
        elif gw and rng.random() < gw:
            g = rng.choice(entry["getters"])
            ops.append(rng.choice([{"op": "Getter", "name": g}, {"op": "Getter", "name": g}, {"op": "GetterInContext", "name": g + "InContext", "ctx": rng.randrange(1, nctx + 1)}]))
        elif c < 0.3:
            ops.append({"op": "Get", "id": rng.choice(svcs)})
        elif c < 0.6:
            ops.append({"op": "GetInContext", "id": rng.choice(svcs), "ctx": rng.randrange(1, nctx + 1)})
        elif c < 0.75 and entry["params"]:
            ops.append({"op": "GetParam", "id": rng.choice(entry["params"])})
        elif c < 0.85 and entry["tags"]:
            ops.append({"op": "GetTaggedBy", "tag": rng.choice(entry["tags"])})
        elif c < 0.93 and entry["getters"]:
            g = rng.choice(entry["getters"])
            ops.append(rng.choice([{"op": "Getter", "name": g}, {"op": "GetterInContext", "name": g + "InContext", "ctx": rng.randrange(1, nctx + 1)}]))
        else:
            ops.append({"op": "GetTaggedByInContext", "tag": rng.choice(entry["tags"]), "ctx": rng.randrange(1, nctx + 1)} if entry["tags"]
                       else {"op": "Get", "id": rng.choice(svcs)})
    return ops


CHAIN_YAML = """\
meta:
  imports: {fx: "probe.test/fx"}
  functions: {fn: "fx.Fn"}
parameters:
  P: "%fn()%"
services:
  A: {constructor: fx.NewA, arguments: ["%P%"], scope: shared}
  B: {constructor: fx.NewB, arguments: ["@A"], scope: contextual}
  C: {constructor: fx.NewC, arguments: ["@B", "@A"], scope: non_shared}
"""


def fine_traces(tier, v, rng):
    """small concurrent runs validated against the fine-grained actions of ContainerConc.tla (Trace_ContainerConc):
    TLC has to find an interleaving of Lock / Check / Dep / Construct / Store / Unlock that explains the observed order of
    constructions and returns and the observed instance identities."""
    import concurrent.futures
    wd = core.subdir("c20-fine")
    with open(os.path.join(wd, "in.yaml"), "w") as f:
        f.write(CHAIN_YAML)
    pool = core.DriverPool(1)
    try:
        rs = pool.run_all([{"id": 0, "dir": wd, "args": ["-i", "in.yaml", "-o", "out.go"], "version": "dev-main", "buildinfo": "verif",
                            "out": "out.go", "want_out": True}])[0]
    finally:
        pool.close()
    if rs["exit"] != 0:
        return {"fine_traces": 0, "note": "chain configuration rejected (unobservable here)"}
    pb = probemod.Probe(name="probe-C20-fine")
    pb.add("chain", rs["out_data"])
    if "chain" not in set(pb.build(race=True)):
        return {"fine_traces": 0, "note": "chain configuration does not compile (unobservable here)"}
    n = 24 if tier == "quick" else 160
    scripts, metas = [], []
    for k in range(n):
        G = rng.choice([2, 2, 3])
        groups = []
        for g in range(G):
            ops = []
            for _ in range(2):
                c = rng.random()
                if c < 0.4:
                    ops.append({"op": "Get", "id": rng.choice(["A", "B", "C"])})
                elif c < 0.85:
                    ops.append({"op": "GetInContext", "id": rng.choice(["A", "B", "C"]), "ctx": rng.choice([1, 2])})
                else:
                    ops.append({"op": "GetParam", "id": "P"})
            groups.append(ops)
        scripts.append({"id": k, "pkg": "chain", "ops": [{"op": "Par", "groups": groups, "repeat": 1}]})
        metas.append(groups)
    out = pb.run(scripts, procs=4, env=dict(os.environ, GORACE="halt_on_error=1 exitcode=66"))
    shutil.rmtree(pb.dir, ignore_errors=True)
    traces = []
    for k, groups in enumerate(metas):
        rr = out.get(k)
        if rr is None or rr.get("crashed") is not None or rr.get("timeout") or rr.get("err") or "par" not in (rr["res"][0] if rr.get("res") else {}):
            if rr is not None and rr.get("crashed") is not None and "DATA RACE" in rr.get("stderr", ""):
                v.disagree("data-race", {"configuration": CHAIN_YAML}, {"stderr": rr["stderr"][:1500]}, tags={"config": "chain"})
            continue
        par = rr["res"][0]
        rets = {(o["g"], o["i"]): o for lst in par["par"] for o in lst}
        lines = [{"ev": "cfg", "ops": [[{"op": o["op"], "id": o["id"], "ctx": o.get("ctx", 0)} for o in grp] for grp in groups]}]
        bad = False
        for ev in par["events"]:
            if ev["ev"] == "op_start":
                lines.append({"ev": "op_start", "g": ev["g"] + 1})
            elif ev["ev"] == "ctor":
                lines.append({"ev": "ctor", "name": ev["name"], "serial": ev["serial"]})
            elif ev["ev"] == "fn":
                lines.append({"ev": "fn", "name": ev["name"]})
            elif ev["ev"] == "op_return":
                o = rets[(ev["g"], ev["i"])]
                if "ok" not in o:
                    v.disagree("operation-fails-under-concurrency", {"configuration": CHAIN_YAML}, {"op": o}, tags={"config": "chain"})
                    bad = True
                    break
                lines.append({"ev": "op_return", "g": ev["g"] + 1, "serial": o["ok"].get("id", 0) if o["ok"].get("k") == "obj" else 0})
        if not bad:
            traces.append(lines)

    def validate(lines):
        r = core.run_tlc("Trace_ContainerConc.tla", "Trace_ContainerConc.cfg", workers=1, timeout=900, want_emits=False,
                         extra_files={"trace.ndjson": "\n".join(json.dumps(x) for x in lines) + "\n"})
        core.check_tlc_error(r, "validating a small concurrent run against ContainerConc")
        hw = None
        for ln in r.raw_tail.split("\n"):
            if ln.startswith('<<"HW"'):
                hw = int(ln.strip("<>").split(",")[1])
        return r, hw
    n_ok = 0
    with concurrent.futures.ThreadPoolExecutor(max_workers=max(2, core.NCPU // 2)) as ex:
        for lines, (r, hw) in zip(traces, ex.map(validate, traces)):
            if hw == len(lines) + 1 and not r.violation:
                n_ok += 1
            else:
                v.disagree("run-is-not-a-behaviour-of-ContainerConc", {"configuration": CHAIN_YAML},
                           {"tlc": (r.violation or "no interleaving of the model explains the observed events")[:200],
                            "stuck_at": lines[(hw or 2) - 1:(hw or 2) + 1], "ops": lines[0]["ops"], "trace": lines[1:40]}, tags={"config": "chain"})
    shutil.rmtree(wd, ignore_errors=True)
    return {"fine_traces": len(traces), "fine_traces_accepted": n_ok, "sample": traces[0] if traces else None}


TLAPS_STDLIB = "/opt/veriftools/tlapm/lib/tlapm/stdlib"
TLAPS_MODULES = ("TLAPS.tla", "SequenceTheorems.tla", "FunctionTheorems.tla", "NaturalsInduction.tla", "WellFoundedInduction.tla", "FiniteSetTheorems.tla")


PROOF_FILES = ("ContainerConc.tla", "ContainerConcProofs.tla")
PROOF_CERT = "ContainerConcProofs.cert.json"


def proof_digest():
    import hashlib
    h = hashlib.sha256()
    for f in PROOF_FILES:
        h.update(open(os.path.join(core.SPEC, f), "rb").read())
    return h.hexdigest()


def prove_mutex(tier="quick"):
    """TLAPS: mutual exclusion, ConstructedOnce, EvaluatedOnce and ContextIsolation are invariants of ContainerConc for every
    instance (ContainerConcProofs.tla, about ten minutes). The proof depends on the two modules only, not on /repo: the thorough
    tier proves everything afresh and (re)writes spec/ContainerConcProofs.cert.json with the digest of the modules it proved; the
    quick tier accepts that certificate when the digest of the current modules equals it and proves afresh otherwise."""
    import re
    import tempfile
    cert_path = os.path.join(core.SPEC, PROOF_CERT)
    digest = proof_digest()
    if tier == "quick" and os.path.exists(cert_path):
        cert = json.load(open(cert_path))
        if cert.get("sha256_of_modules") == digest and cert.get("obligations_proved", 0) > 0:
            return {"obligations": cert["obligations_proved"], "how": "certificate of an earlier full proof of exactly these modules (sha256 %s...)" % digest[:12]}
    d = tempfile.mkdtemp(prefix="tlaps-", dir=core.scratch())
    for f in PROOF_FILES:
        shutil.copy(os.path.join(core.SPEC, f), d)
    p = core.sh(["tlapm", "--threads", str(core.NCPU), "--cleanfp", "ContainerConcProofs.tla"], cwd=d, check=False, timeout=5400, env=dict(os.environ))
    m = re.search(r"All (\d+) obligations? proved", p.stdout)
    if not m:
        raise core.InfraError("TLAPS could not discharge the proofs about ContainerConc:\n" + p.stdout[-2000:])
    n = int(m.group(1))
    try:
        if os.access(core.SPEC, os.W_OK) and os.environ.get("VERIF_EVIDENCE_DIR") is None:
            json.dump({"sha256_of_modules": digest, "obligations_proved": n, "modules": list(PROOF_FILES),
                       "prover": "tlapm --cleanfp (back ends SMT, Zenon, Isabelle, PTL)"}, open(cert_path, "w"), indent=1)
    except OSError:
        pass
    return {"obligations": n, "how": "proved afresh by tlapm"}


def run_c20(tier):
    pid = "C20"
    t0 = time.time()
    rng = random.Random(core.seed())
    v = core.Verdict(pid)
    obligations = prove_mutex(tier)
    # ---- R1 (the instances are also checked against the proof's inductive invariant and its assumption on the constants)
    tlc = {}
    states = gen = 0
    stdlib = {}
    if all(os.path.exists(os.path.join(TLAPS_STDLIB, m)) for m in TLAPS_MODULES):
        stdlib = {m: open(os.path.join(TLAPS_STDLIB, m)).read() for m in TLAPS_MODULES}
    for scn in ("two", "three", "params"):
        if stdlib:
            r = core.run_tlc("MC_ContainerConcInv.tla", "MC_ContainerConcInv_%s.cfg" % scn, timeout=1800, want_emits=False, extra_files=stdlib)
        else:
            r = core.run_tlc("MC_ContainerConc.tla", "MC_ContainerConc_%s.cfg" % scn, timeout=1800, want_emits=False)
        if r.violation:
            raise core.InfraError("TLC: ContainerConc/%s violates a design invariant:\n%s" % (scn, r.raw_tail[-2000:]))
        tlc[scn] = {"states": r.states, "generated": r.generated}
        states += r.states
        gen += r.generated
    r = core.run_tlc("MC_ContainerConc.tla", "MC_ContainerConc_cyclic.cfg", timeout=600, want_emits=False)
    tlc["cyclic"] = {"deadlock_found_as_expected": bool(r.violation and "NoDeadlock" in r.violation)}
    if not tlc["cyclic"]["deadlock_found_as_expected"]:
        raise core.InfraError("negative control failed: the cyclic instance of ContainerConc does not deadlock")
    # ---- configurations
    entries = []
    fam = "scope2" if tier == "quick" else "scope3"
    # only the configurations are needed here (initial states): histories of these families belong to C05
    r2 = core.run_tlc("MC_Container.tla", "MC_Container_%s.cfg" % ("scope2" if tier == "quick" else "scope3c"), timeout=3000)
    seen = {}
    for c in r2.emitted:
        key = json.dumps(c["cfg"], sort_keys=True)
        if key not in seen:
            seen[key] = c
    fams = sorted(seen.values(), key=lambda c: json.dumps(c["cfg"], sort_keys=True))
    rng.shuffle(fams)
    ctor_made = {"fx.NewA": "probe.test/fx.NewA", "fx.NewB": "probe.test/fx.NewB", "fx.NewC": "probe.test/fx.NewC"}
    for c in fams[: (10 if tier == "quick" else 60)]:
        svcs = concretise.fix_map(c["cfg"]["services"])
        entries.append({"name": fam, "yaml": concretise.to_yaml(c["cfg"], rng), "eff": concretise.fix_map(c["eff"]), "env": {},
                        "made": {s: ctor_made[svcs[s]["ctor"]] for s in svcs}, "params": [], "fns": [], "getters": [], "tags": ["t1"]})
    for h in HAND:
        docs = h.get("docs") or [h["doc"]]
        entries.append(dict(h, yamls=[concretise.emit(d, rng) + "\n" for d in docs]))
        entries[-1]["yaml"] = "\n---- next file ----\n".join(entries[-1]["yamls"])
    wd = core.subdir("c20")
    pool = core.DriverPool()
    jobs = []
    for i, e in enumerate(entries):
        d = os.path.join(wd, "c%03d" % i)
        os.makedirs(d)
        ins = []
        for k, y in enumerate(e.get("yamls") or [e["yaml"]]):
            ins += ["-i", "in%d.yaml" % k]
            with open(os.path.join(d, "in%d.yaml" % k), "w") as f:
                f.write(y)
        jobs.append({"id": i, "dir": d, "args": ins + ["-o", "out.go"], "version": "dev-main", "buildinfo": "verif", "out": "out.go", "want_out": True})
    try:
        res = pool.run_all(jobs)
    finally:
        pool.close()
    pb = probemod.Probe(name="probe-C20")
    live = []
    for i, (e, rs) in enumerate(zip(entries, res)):
        if rs["exit"] != 0:
            continue        # unobservable here
        e["pkg"] = "c%03d" % i
        pb.add(e["pkg"], rs["out_data"])
        live.append(e)
    good = set(pb.build(race=True))
    live = [e for e in live if e["pkg"] in good]
    if len(live) < max(3, len(entries) // 2):
        raise core.InfraError("too few configurations could be compiled for the concurrent runs (%d of %d)" % (len(live), len(entries)))
    Gs = [4, 16] if tier == "quick" else [4, 16, 64]
    reps = 6 if tier == "quick" else 40
    scripts = []
    for e in live:
        for G in Gs:
            for k in range(reps):
                groups = [ops_for(e, rng, 3) for _ in range(G)]
                scripts.append({"id": len(scripts), "pkg": e["pkg"], "ops": [{"op": "Env", "set": e["env"]}, {"op": "Par", "groups": groups, "repeat": 3}],
                                "_e": e, "_G": G})
    env = dict(os.environ, GORACE="halt_on_error=1 exitcode=66")
    out = pb.run([{k: x for k, x in s.items() if not k.startswith("_")} for s in scripts], procs=max(2, core.NCPU // 2), env=env)
    shutil.rmtree(pb.dir, ignore_errors=True)
    shutil.rmtree(wd, ignore_errors=True)
    lines, owners = [], []
    n_runs = n_ops = 0
    for s in scripts:
        rr = out.get(s["id"])
        e = s["_e"]
        case = {"configuration": e["yaml"], "goroutines": s["_G"]}
        if rr is None:
            continue
        if rr.get("crashed") is not None:
            err = rr.get("stderr", "")
            kind = "data-race" if "DATA RACE" in err else "probe-crashed"
            v.disagree(kind, case, {"stderr": err[-1800:]}, tags={"config": e["name"]})
            continue
        if rr.get("timeout") or rr.get("err"):
            v.disagree("hang-or-constructor-failure", case, {"timeout": rr.get("timeout"), "err": rr.get("err")}, tags={"config": e["name"]})
            continue
        par = rr["res"][1]
        if "panic" in par:
            v.disagree("panic", case, {"panic": par["panic"][:600]}, tags={"config": e["name"]})
            continue
        n_runs += 1
        heap = rr["heap"]
        shared = sorted(e["made"][x] for x in e["eff"] if e["eff"][x] == "shared")
        ctxm = sorted(e["made"][x] for x in e["eff"] if e["eff"][x] == "contextual")
        start = len(lines)
        nsm = sorted(e["made"][x] for x in e["eff"] if e["eff"][x] == "non_shared")
        lines.append({"ev": "cfg", "shared": shared, "contextual": ctxm, "ns": nsm, "fns": e["fns"]})
        rets = {}
        for g, lst in enumerate(par["par"]):
            for o in lst:
                rets[(o["g"], o["i"], o["k"])] = o
        for ev in par["events"]:
            if ev["ev"] == "ctor":
                lines.append({"ev": "ctor", "made": ev["name"], "serial": ev["serial"]})
            elif ev["ev"] == "fn":
                lines.append({"ev": "fn", "name": ev["name"]})
            elif ev["ev"] == "op_return":
                o = rets[(ev["g"], ev["i"], ev["k"])]
                n_ops += 1
                if "panic" in o:
                    v.disagree("panic", case, {"op": o}, tags={"config": e["name"]})
                    continue
                if "ok" not in o:
                    v.disagree("operation-fails-under-concurrency", case, {"op": o}, tags={"config": e["name"]})
                    continue
                acc = set()
                reach(o["ok"], heap, acc)
                op = s["ops"][1]["groups"][ev["g"]][ev["i"]]
                root = ["", 0]
                if isinstance(o["ok"], dict) and o["ok"].get("k") == "obj" and str(o["ok"]["id"]) in heap:
                    root = [made_of(heap[str(o["ok"]["id"])]), o["ok"]["id"]]
                lines.append({"ev": "ret", "seq": ev["seq"], "ctx": op.get("ctx", 0) if "InContext" in op["op"] else 0,
                              "insts": sorted([m, sid] for (m, sid) in acc), "root": root})
        owners.append((start, len(lines), s))
    # ---- R3: validate
    n_valid = 0
    for _ in range(20):
        if not owners:
            break
        text = "\n".join(json.dumps(x) for a, b, s in owners for x in lines[a:b]) + "\n"
        r = core.run_tlc("Trace_Conc.tla", "Trace_Conc.cfg", workers=1, timeout=3000, want_emits=False, extra_files={"trace.ndjson": text})
        core.check_tlc_error(r, "validating concurrent runs")
        hw = None
        for ln in r.raw_tail.split("\n"):
            if ln.startswith('<<"HW"'):
                hw = int(ln.strip("<>").split(",")[1])
        total = sum(b - a for a, b, s in owners)
        if hw == total + 1 and not r.violation:
            n_valid = len(owners)
            break
        # locate the run: by high-water mark, or (invariant violation) by the state's l in the error trace
        pos = hw
        if r.violation:
            import re as _re
            ls = _re.findall(r"/\\ l = (\d+)", r.raw_tail)
            pos = int(ls[-1]) if ls else (hw or 1)
        acc = 0
        bad = 0
        for i, (a, b, s) in enumerate(owners):
            if acc < (pos or 1) <= acc + (b - a) + 1:
                bad = i
                break
            acc += b - a
        a, b, s = owners[bad]
        e = s["_e"]
        off = max(0, (pos or 1) - acc - 2)
        v.disagree("concurrent-run-rejected-by-spec", {"configuration": e["yaml"], "goroutines": s["_G"]},
                   {"tlc": (r.violation or "event not enabled")[:200], "event": lines[a:b][off:off + 2], "cfg_event": lines[a]},
                   tags={"config": e["name"]})
        del owners[bad]
    fine = fine_traces(tier, v, rng)
    if n_runs < 5 and not v.violations:
        raise core.InfraError("degenerate exploration: %d concurrent runs" % n_runs)
    rc = v.finish(tier, t0)
    core.write_evidence(pid, tier, "model_checking", {
        "states": states, "transitions": gen, "traces_validated_against_impl": n_valid,
        "samples": [{"trace_head": lines[:6]}, {"fine_grained_trace": fine.get("sample")}],
        "evaluations": n_runs, "distinct_nontrivial": len(live) * len(Gs),
        "rule": "design: every interleaving of ContainerConc.tla for the instances two / three / params (cyclic must deadlock); code: %d "
                "configurations (model-enumerated graphs x scopes from MC_Container/%s and hand-made ones with multi-chunk patterns, env functions, "
                "derived contextual scope, tags, decorators, getters) x goroutine counts %s x %d runs of 3 rounds of 4 random operations per goroutine "
                "over 3 contexts, under the race detector; distinct_nontrivial = configuration x goroutine count" % (len(live), fam, Gs, reps),
        "exhaustive": False, "tlc_instances": tlc,
        "tlaps": {"module": "ContainerConcProofs.tla", "theorem": "for every instance (any goroutines, services, parameters, dependency relation, scripts): "
                  "Inv (typing; a frame inside a critical section belongs to the goroutine the lock table names; no goroutine holds one entry "
                  "twice), OnceInv (built[s] tied to the position of the one frame inside the critical section of a shared s), EvalInv "
                  "(the same for evals[p] of a parameter) and CtxInv (every instance in a frame, a bag, the shared cache or a result has the "
                  "owner its place demands; no place holds a number not handed out yet) and AgreeInv (a frame of a shared service past its critical "
                  "section and every result hold the cached instance) are inductive; Spec => []MutualExclusion, []ConstructedOnce, "
                  "[]EvaluatedOnce, []ContextIsolation and []SharedAgreed",
                  "obligations": obligations["obligations"], "discharged": obligations["obligations"], "how": obligations["how"],
                  "instances_checked_against_Inv_by_TLC": bool(stdlib)}, "fine_grained_binding": {k: x for k, x in fine.items() if k != "sample"}, "operations_returned": n_ops, "trace_events": len(lines),
        "known_findings_hit": {k: n for k, (f, n) in v.known_hit.items()},
    }, time.time() - t0, violations=len(v.violations), assumptions=[
        "interleavings of the real program are sampled by the Go scheduler, not enumerated; the model explores them exhaustively only on its own abstraction",
        "the locking itself lives in the external runtime and is modelled (ContainerConc.tla), not verified",
        "events are ordered by one atomic counter taken inside the fixture constructor / function, i.e. under the runtime's per-entry lock"])
    return rc
