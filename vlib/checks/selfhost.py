"""C19: self-hosting fixpoint. The four steps (build, regenerate, install+rebuild, regenerate) are executed on
a scratch copy of /repo's working tree and recorded as a trace with content digests, validated by TLC against
spec/Trace_SelfHost.tla (invariants Fixpoint and Functional)."""
import json
import os
import re
import shutil
import time

from .. import core

YAML_ARGS = ["-i", "internal/gontainer/gontainer.yaml", "-i", "internal/gontainer/gontainer_*.yaml"]


def strip_version(b):
    return re.sub(rb"(?m)^// gontainer version: .*$", b"// gontainer version: X", b)


def run_c19(tier):
    pid = "C19"
    t0 = time.time()
    v = core.Verdict(pid)
    wd = core.subdir("c19")
    tree = os.path.join(wd, "tree")
    shutil.copytree(core.REPO, tree, ignore=shutil.ignore_patterns(".git"))
    checked = strip_version(open(os.path.join(tree, "internal/gontainer/gontainer.go"), "rb").read())
    digests = {core.sha(checked): "checkedin"}

    def name(b):
        return digests.setdefault(core.sha(b), "d%d" % len(digests))
    trace = []
    outs = []
    rounds = 2 if tier == "quick" else 3
    for g in range(rounds):
        tool = os.path.join(wd, "tool%d" % g)
        if g == 0:
            core.sh(["go", "build", "-o", tool, "."], cwd=tree)        # the working tree itself must build: infrastructure otherwise
        else:
            pb = core.sh(["go", "build", "-o", tool, "."], cwd=tree, check=False)
            if pb.returncode != 0:
                v.disagree("regenerated-wiring-does-not-build", {"gen": g}, {"compiler": pb.stdout[-800:]})
                break
        trace.append({"ev": "build", "gen": g})
        for rep in range(1 if tier == "quick" else 2):
            # `make self-compile` writes over the checked-in file: regenerate IN PLACE, then keep a copy
            inplace = os.path.join(tree, "internal/gontainer/gontainer.go")
            out = os.path.join(wd, "gen%d_%d.go" % (g, rep))
            p = core.sh([tool, "build"] + YAML_ARGS + ["-o", "internal/gontainer/gontainer.go", "-q"], cwd=tree, check=False)
            if p.returncode == 0:
                shutil.copy(inplace, out)
            if p.returncode != 0 or not os.path.exists(out):
                v.disagree("regeneration-fails", {"gen": g}, {"rc": p.returncode, "out": p.stdout[-600:]})
                break
            b = strip_version(open(out, "rb").read())
            outs.append((g, b))
            trace.append({"ev": "regen", "gen": g, "digest": name(b)})
        if v.violations:
            break
        shutil.copy(out, os.path.join(tree, "internal/gontainer/gontainer.go"))
        trace.append({"ev": "install", "gen": g})
    # the Makefile's own target (anchor of the property): `make self-compile` with generation 0 on PATH must give the same file
    mk = None
    if not v.violations and shutil.which("make"):
        import subprocess
        tree2 = os.path.join(wd, "tree-make")
        shutil.copytree(core.REPO, tree2, ignore=shutil.ignore_patterns(".git"))
        bindir = os.path.join(wd, "mk-bin")
        os.makedirs(bindir)
        shutil.copy(os.path.join(wd, "tool0"), os.path.join(bindir, "gontainer"))
        p = subprocess.run(["make", "self-compile"], cwd=tree2, env=dict(os.environ, PATH=bindir + os.pathsep + os.environ.get("PATH", "")),
                           stdout=subprocess.PIPE, stderr=subprocess.STDOUT, timeout=300)
        mk = {"rc": p.returncode}
        if p.returncode != 0:
            v.disagree("make-self-compile-fails", {"command": "make self-compile"}, {"rc": p.returncode, "out": p.stdout.decode("utf8", "replace")[-600:]})
        else:
            b = strip_version(open(os.path.join(tree2, "internal/gontainer/gontainer.go"), "rb").read())
            mk["digest"] = name(b)
            if b != checked:
                v.disagree("fixpoint", {"command": "make self-compile"}, {"what": "the Makefile target regenerates a different file than the checked-in one"})
    # the same regeneration from checkouts that differ only in where and how the files are stored: a path with a comma, an equals
    # sign and a blank (absolute -i / -o paths), and a tree whose configuration files are symbolic links into another directory
    variants = {}
    if not v.violations:
        import glob as _glob
        import subprocess
        odd = os.path.join(wd, "os=linux,arch=amd64", "my tree")
        shutil.copytree(core.REPO, odd, ignore=shutil.ignore_patterns(".git"))
        farm = os.path.join(wd, "farm")
        shutil.copytree(core.REPO, farm, ignore=shutil.ignore_patterns(".git"))
        store = os.path.join(wd, "store")
        os.makedirs(store)
        for y in sorted(_glob.glob(os.path.join(farm, "internal/gontainer/*.yaml"))):
            shutil.move(y, os.path.join(store, os.path.basename(y)))
            os.symlink(os.path.join(store, os.path.basename(y)), y)
        for label, tree_v, absolute in (("comma-in-path-absolute", odd, True), ("comma-in-path-relative", odd, False), ("symlinked-configuration", farm, False)):
            pre = os.path.join(tree_v, "") if absolute else ""
            args = ["-i", pre + "internal/gontainer/gontainer.yaml", "-i", pre + "internal/gontainer/gontainer_*.yaml", "-o", pre + "internal/gontainer/gontainer.go", "-q"]
            p = subprocess.run([os.path.join(wd, "tool0"), "build"] + args, cwd=tree_v, stdout=subprocess.PIPE, stderr=subprocess.STDOUT, timeout=300)
            variants[label] = p.returncode
            if p.returncode != 0:
                v.disagree("regeneration-fails", {"variant": label, "args": args}, {"rc": p.returncode, "out": p.stdout.decode("utf8", "replace")[-500:]})
                continue
            b = strip_version(open(os.path.join(tree_v, "internal/gontainer/gontainer.go"), "rb").read())
            variants[label] = name(b)
            if b != checked:
                v.disagree("fixpoint", {"variant": label, "args": args}, {"what": "regeneration from this checkout differs from the checked-in file",
                                                                          "size": [len(checked), len(b)]})
    # ... over a STALE wiring file: the checked-in file was edited by hand (or comes from an older generator) and is younger than
    # every configuration file; regenerating in place must still bring back exactly what the YAML declares (C19-r7-m1 skipped
    # generation when the output was newer than its inputs).  Also the other way round (configuration files younger).
    if not v.violations:
        import glob as _glob
        import subprocess
        for label, yaml_age in (("stale-output-younger-than-yaml", -7200), ("stale-output-older-than-yaml", 7200)):
            st = os.path.join(wd, label)
            shutil.copytree(core.REPO, st, ignore=shutil.ignore_patterns(".git"))
            target = os.path.join(st, "internal/gontainer/gontainer.go")
            src = open(target, "rb").read()
            with open(target, "wb") as f:
                f.write(src.replace(b"SetScope", b"SetScoop", 1) + b"\n// edited by hand\n")
            now = time.time()
            os.utime(target, (now, now))
            for y in _glob.glob(os.path.join(st, "internal/gontainer/*.yaml")):
                os.utime(y, (now + yaml_age, now + yaml_age))
            p = subprocess.run([os.path.join(wd, "tool0"), "build"] + YAML_ARGS + ["-o", "internal/gontainer/gontainer.go", "-q"], cwd=st,
                               stdout=subprocess.PIPE, stderr=subprocess.STDOUT, timeout=300)
            variants[label] = p.returncode
            if p.returncode != 0:
                v.disagree("regeneration-fails", {"variant": label}, {"rc": p.returncode, "out": p.stdout.decode("utf8", "replace")[-500:]})
                continue
            b = strip_version(open(target, "rb").read())
            variants[label] = name(b)
            if b != checked:
                v.disagree("fixpoint", {"variant": label}, {"what": "regenerating over a hand-edited wiring file does not restore what the YAML declares",
                                                            "size": [len(checked), len(b)]})
    # ... and from a process that hardly gets the CPU (suspended for 1.2 s after every 4 ms of running, so that every step of some length is interrupted): what is written must not depend on how long a step takes
    if not v.violations:
        import signal
        import subprocess
        slow = os.path.join(wd, "slow")
        shutil.copytree(core.REPO, slow, ignore=shutil.ignore_patterns(".git"))
        p = subprocess.Popen([os.path.join(wd, "tool0"), "build"] + YAML_ARGS + ["-o", "internal/gontainer/gontainer.go", "-q"], cwd=slow,
                             stdout=subprocess.PIPE, stderr=subprocess.STDOUT)
        t_end = time.time() + 120
        while p.poll() is None and time.time() < t_end:
            try:
                os.kill(p.pid, signal.SIGSTOP)
                time.sleep(1.2)
                os.kill(p.pid, signal.SIGCONT)
            except ProcessLookupError:
                break
            time.sleep(0.004)
        if p.poll() is None:
            p.kill()
            variants["slow-motion"] = "still running after 120 s (not judged)"
        else:
            variants["slow-motion"] = p.returncode
            if p.returncode != 0:
                v.disagree("regeneration-fails", {"variant": "slow-motion"}, {"rc": p.returncode, "out": p.stdout.read().decode("utf8", "replace")[-500:]})
            else:
                b = strip_version(open(os.path.join(slow, "internal/gontainer/gontainer.go"), "rb").read())
                variants["slow-motion"] = name(b)
                if b != checked:
                    v.disagree("fixpoint", {"variant": "slow-motion"}, {"what": "a starved process regenerates a different file", "size": [len(checked), len(b)]})
    accepted = None
    if not v.violations:
        r = core.run_tlc("Trace_SelfHost.tla", "Trace_SelfHost.cfg", workers=1, timeout=300, want_emits=False,
                         extra_files={"trace.ndjson": "\n".join(json.dumps(e) for e in trace) + "\n"})
        accepted = r.ok and not r.violation
        if not accepted:
            import difflib
            first = next((b for g, b in outs if b != checked), checked)
            diff = list(difflib.unified_diff(checked.decode("utf8", "replace").split("\n"),
                                             first.decode("utf8", "replace").split("\n"), "checked-in", "regenerated", lineterm="", n=1))
            v.disagree("fixpoint", {"trace": trace}, {"tlc": (r.violation or "trace not accepted")[:200], "diff": diff[:40]})
    shutil.rmtree(wd, ignore_errors=True)
    rc = v.finish(tier, t0)
    core.write_evidence(pid, tier, "other", {
        "explanation": "There is one input (the repository's own configuration) and nothing to enumerate: the check executes "
                       "build -> regenerate -> install -> rebuild -> regenerate (%d generations) on a scratch copy of the working tree, "
                       "records the steps with content digests (version comment line masked) and lets TLC validate the trace "
                       "against SelfHost.tla, whose invariants Fixpoint (every regeneration equals the checked-in file) and "
                       "Functional (same tool, same output) are evaluated at every step." % rounds,
        "evaluations": len([e for e in trace if e["ev"] == "regen"]), "distinct_nontrivial": 2,
        "samples": [trace], "traces_validated_against_impl": 1, "trace_accepted": accepted, "make_self_compile": mk, "checkout_variants": variants,
    }, time.time() - t0, violations=len(v.violations),
        assumptions=["the regeneration command is the Makefile's self-compile target (patterns and their order)"])
    return rc
