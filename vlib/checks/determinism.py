"""C08: deterministic, key-order independent output. Scenarios (valid configurations of the TLC families,
invalid ones with several simultaneous defects of each class, files matched by several patterns, several
invalid meta entries) are run R times in FRESH PROCESSES (every process draws fresh hash-map iteration
orders) under varying environment and working directory, and with the keys of every YAML mapping permuted;
the recorded (scenario, sha(out), sha(report), exit) events are validated by TLC against Determinism.tla."""
import json
import os
import random
import shutil
import subprocess
import threading
import time
import queue

from .. import core, concretise
from . import grammar


def family_cases(module, cfg, n, rng):
    r = core.run_tlc(module, cfg, timeout=1800)
    if r.violation:
        raise core.InfraError("TLC: invariant violated in %s/%s" % (module, cfg))
    seen, out = set(), []
    for c in r.emitted:
        files = c.get("files") or [c["cfg"]]
        key = json.dumps(files, sort_keys=True)
        if key not in seen:
            seen.add(key)
            out.append(files)
    rng.shuffle(out)
    return out[:n], r


def handmade():
    """scenarios aimed at the places where the code iterates over Go maps"""
    sc = []
    # several invalid imports / aliases / functions at once (validators_meta.go ranges over maps)
    sc.append({"name": "meta-many-invalid", "docs": [{"meta": {"imports": {"bad alias %d" % i: "x//y%d" % i for i in range(6)},
                                                               "functions": {"bad fn %d" % i: "not a func %d" % i for i in range(6)}},
                                                      "services": {"s": {"constructor": "NewA"}}}], "args": None})
    # several files each matched by two patterns (step_read_config.go ranges over `processed`)
    docs = [{"services": {"s%d" % i: {"constructor": "NewA"}}} for i in range(5)]
    sc.append({"name": "files-matched-twice", "docs": docs, "names": ["m%d.yaml" % i for i in range(5)],
               "args": ["-i", "m*.yaml", "-i", "m?.yaml"]})
    # many simultaneous defects of every class
    doc = grammar.base_doc()
    for k in sorted(grammar.DEFECTS):
        grammar.DEFECTS[k][0](doc)
    sc.append({"name": "all-grammar-defects", "docs": [doc], "args": None})
    # missing params / services from many referrers, several cycles, several scope violations
    svcs = {}
    for i in range(6):
        svcs["a%d" % i] = {"constructor": "NewA", "arguments": ["@nope%d" % i, "%%missing%d%%" % i, "@a%d" % ((i + 1) % 6)], "scope": "shared",
                           "fields": {"Z": "@c%d" % i, "A": "%%gone%d%%" % i}}
        svcs["c%d" % i] = {"constructor": "NewB", "scope": "contextual", "arguments": ["@c%d" % i]}
    sc.append({"name": "all-output-defects", "docs": [{"parameters": {"p%d" % i: "%%p%d%%" % ((i + 1) % 4) for i in range(4)}, "services": svcs}],
               "args": None})
    # parameters referring to several others that lie on cycles (the order of reported cycles must not depend on map order)
    sc.append({"name": "param-cycles-fanout", "docs": [{"parameters": {
        "a": "%b%%c%%d%%e%", "b": "%a%", "c": "%a%%b%", "d": "%e%%a%", "e": "%d%%c%", "z": "%y%%x%%w%", "y": "%z%", "x": "%z%%y%", "w": "%x%%z%"},
        "services": {"s": {"constructor": "NewA", "arguments": ["%a%", "%z%"]}}}], "args": None})
    sc.append({"name": "service-cycles-fanout", "docs": [{"services": {
        "a": {"constructor": "NewA", "arguments": ["@b", "@c", "@d"], "tags": ["t"]}, "b": {"constructor": "NewA", "arguments": ["@a", "!tagged t"]},
        "c": {"constructor": "NewA", "arguments": ["@a", "@b"], "tags": ["t", "u"]}, "d": {"constructor": "NewA", "fields": {"X": "@c", "A": "@a"}}},
        "decorators": [{"tag": "u", "decorator": "Decorate", "arguments": ["@d", "!tagged t"]}]}], "args": None})
    # aliases that are prefixes of each other and of referenced paths; many imports; fields with !value from different packages
    sc.append({"name": "aliases-and-imports", "docs": [{
        "meta": {"imports": {"a": "probe.test/p", "ab": "probe.test/pq", "abc": "probe.test/x/p", "p": "probe.test/fx"},
                 "functions": {"f%d" % i: ["ab.Fn", "abc.Fn", "a/q.Fn", "p.Fn"][i] for i in range(4)}},
        "parameters": {"q%d" % i: "%%f%d()%%" % i for i in range(4)},
        "services": {"s%d" % i: {"constructor": ["a.NewA", "ab.NewA", "abc.NewA", "p.NewA", "a/q.NewA"][i % 5],
                                 "fields": {"F1": "!value ab.Var", "F2": "!value abc.Var", "f3": "!value a.Var"},
                                 "tags": ["t%d" % (i % 2)]} for i in range(6)},
        "decorators": [{"tag": "t0", "decorator": "p.Decorate"}, {"tag": "t1", "decorator": "abc.Decorate"}]}], "args": None})
    # packages met for the first time inside one mapping (fields of one service, no function or constructor has aliased them before)
    sc.append({"name": "fresh-packages-in-fields", "docs": [{
        "meta": {"imports": {"a": "probe.test/p", "ab": "probe.test/pq", "abc": "probe.test/x/p", "p": "probe.test/fx", "y": "probe.test/fy"}},
        "services": {"s0": {"constructor": "NewA", "fields": {"F1": "!value ab.Var", "F2": "!value abc.Var", "f3": "!value a.Var"},
                            "calls": [["SetX", ["!value p.Var", "!value y.Var"]]]},
                     "s1": {"value": "y.Var", "fields": {"F2": "!value p.Var", "F1": "!value abc.Var"}}}}], "args": None})
    # a service re-opened in a later file: tags, calls and fields from both files; parameters and functions overridden
    sc.append({"name": "reopened-across-files", "docs": [
        {"meta": {"imports": {"fx": "probe.test/fx", "fy": "probe.test/fy"}, "functions": {"g1": "fx.Fn", "g2": "fy.Fn"}},
         "parameters": {"a": 1, "b": "%g1()%", "c": "%g2()%"},
         "services": {"w": {"constructor": "fx.NewA", "tags": ["writer", {"name": "io", "priority": 1}, "z"], "fields": {"F1": "!value fy.Var"}}}},
        {"meta": {"functions": {"g2": "fx.FnInt", "g3": "fy.FnE"}}, "parameters": {"a": 2, "d": "%g3()%"},
         "services": {"w": {"tags": [{"name": "closer", "priority": 3}, "a"], "calls": [["SetX", ["%d%"]]], "fields": {"F2": "!value fx.Var"}},
                      "v": {"constructor": "fy.NewB", "arguments": ["!tagged io", "@w"]}}}], "args": None})
    # the same, the later file repeating tag names of the earlier one (a duplicate: whatever the tool does, it does it every time)
    sc.append({"name": "retagged-across-files", "docs": [
        {"services": {"w": {"constructor": "NewA", "tags": ["writer", {"name": "io", "priority": 1}, "z", "y"]},
                      "v": {"constructor": "NewB", "tags": ["k", "l", "m"]}}},
        {"services": {"w": {"tags": [{"name": "writer", "priority": 3}, "a", {"name": "z", "priority": 2}]},
                      "v": {"tags": [{"name": "m", "priority": 1}, "k"]}}}], "args": None})
    # tags and calls written as objects / lists with keys and elements the documentation does not know (whatever the tool does with them)
    sc.append({"name": "tag-objects-with-unknown-keys", "docs": [{"services": {
        "s": {"constructor": "NewA", "tags": [{"name": "a", "priority": 1, "prio": 2, "nme": "x", "extra": "y", "weight": 3}, "b",
                                               {"name": "c", "Priority": 1, "PRIORITY": 2, "tag": "z"}]},
        "t": {"constructor": "NewB", "tags": [{"name": "a", "zz": 1, "yy": 2, "xx": 3, "ww": 4}]}},
        "decorators": [{"tag": "a", "decorator": "Decorate", "argumentz": [1], "args": [2], "extra": 3, "more": 4}]}], "args": None})
    sc.append({"name": "unknown-top-level-and-service-keys", "docs": [{"servicez": {}, "parameterz": {}, "extra1": 1, "extra2": 2, "extra3": 3,
        "meta": {"pkgg": "x", "importz": {}, "functionz": {}, "zz": 1}, "parameters": {"p": 1},
        "services": {"s": {"constructor": "NewA", "argumentz": [1], "tagz": ["a"], "callz": [], "fieldz": {}, "scopee": "shared", "gettr": "G"}}}], "args": None})
    # keys that differ only by case
    sc.append({"name": "case-colliding-keys", "docs": [{"parameters": {"db": 1, "DB": 2, "Db": 3, "dB": 4, "dsn": "%db%", "DSN": "%DB%"},
                                                        "services": {"svc": {"constructor": "NewA", "fields": {"Ab": 1, "aB": 2, "AB": 3}},
                                                                     "SVC": {"constructor": "NewB"}, "Svc": {"constructor": "NewC"}}}], "args": None})
    return sc


def realise(files_or_docs, d, rng, names=None, abstract=True):
    os.makedirs(d, exist_ok=True)
    out = []
    for i, f in enumerate(files_or_docs):
        name = names[i] if names else "in%d.yaml" % i
        with open(os.path.join(d, name), "w") as fh:
            fh.write(concretise.to_yaml(f, rng) if abstract else concretise.emit(f, rng) + "\n")
        out.append(name)
    return out


def run_c08(tier):
    pid = "C08"
    t0 = time.time()
    rng = random.Random(core.seed())
    v = core.Verdict(pid)
    wd = core.subdir("c08")
    tool = core.build_tool()
    R = 10 if tier == "quick" else 30
    P = 4 if tier == "quick" else 10
    n = 25 if tier == "quick" else 120
    scenarios = []
    tlc_states = 0
    for module, cfg in (("MC_Container.tla", "MC_Container_build.cfg"), ("MC_Container.tla", "MC_Container_tagsq.cfg"),
                        ("MC_Container.tla", "MC_Container_importsq.cfg"), ("MC_Deps.tla", "MC_Deps_X.cfg"), ("MC_Deps.tla", "MC_Deps_D.cfg")):
        fams, r = family_cases(module, cfg, n, rng)
        tlc_states += r.states
        for files in fams:
            scenarios.append({"name": cfg, "files": files, "abstract": True, "args": None, "names": None})
    for h in handmade():
        scenarios.append({"name": h["name"], "files": h["docs"], "abstract": False, "args": h["args"], "names": h.get("names")})
    jobs = []
    for si, sc in enumerate(scenarios):
        seed0 = rng.getrandbits(32)
        for k in range(R + P):
            perm = k >= R
            d = os.path.join(wd, "s%04d" % si, ("p%02d" % k if perm else "r%02d" % k), *(["deep"] * (k % 3)))
            names = realise(sc["files"], d, random.Random(seed0 if not perm else seed0 + k), sc["names"], sc["abstract"])
            if k % 3 == 1:      # sometimes the working directory lies inside a Go module whose path prefixes the imported packages
                with open(os.path.join(os.path.dirname(d) if k % 3 else d, "go.mod"), "w") as fh:
                    fh.write("module probe.test\n\ngo 1.21\n")
            args = sc["args"] or [a for nme in names for a in ("-i", nme)]
            env = {"PATH": os.environ.get("PATH", ""), "HOME": "/nonexistent%d" % k, "LANG": rng.choice(["C", "en_US.UTF-8", "pl_PL"]),
                   "TZ": rng.choice(["UTC", "Asia/Tokyo"]), "VERIF_NOISE_%d" % k: str(rng.random()), "NO_COLOR": "1",
                   "GOMAXPROCS": str(rng.choice([1, 2, 8]))}
            if k % 2 == 1:      # as started by `go generate`, or from a shell that exports the usual Go / CI variables
                env.update({"GOPACKAGE": rng.choice(["storage", "main", "wiring"]), "GOFILE": "gen.go", "GOLINE": str(k), "GOARCH": "arm64",
                            "GOOS": "plan9", "GOFLAGS": "-mod=mod", "GO111MODULE": rng.choice(["on", "auto"]), "CI": "true",
                            "GONTAINER_PKG": "other", "PKG": "other", "PACKAGE": "other", "USER": "u%d" % k, "PWD": "/elsewhere",
                            "TMPDIR": os.environ.get("TMPDIR", "/tmp"), "COLUMNS": str(rng.choice([40, 80, 200])), "TERM": rng.choice(["dumb", "xterm"])})
            if k % 4 in (2, 3):     # the -o path holds something else already (longer, shorter, not Go at all)
                with open(os.path.join(d, "out.go"), "w") as fh:
                    fh.write(rng.choice(["// old\n" * 5000, "x", "package old\n\nfunc f() {}\n" + "// filler\n" * rng.randrange(1, 3000)]))
            jobs.append((si, k, perm, d, args, env))
    results = [None] * len(jobs)
    q = queue.Queue()
    for i, j in enumerate(jobs):
        q.put((i, j))

    def worker():
        while True:
            try:
                i, (si, k, perm, d, args, env) = q.get_nowait()
            except queue.Empty:
                return
            p = subprocess.run([tool, "build"] + args + ["-o", "out.go"], cwd=d, env=env, stdout=subprocess.PIPE, stderr=subprocess.PIPE, timeout=120)
            outp = os.path.join(d, "out.go")
            # a failing run leaves the -o path as it was (C10's business): only what a successful run wrote is "the generated file"
            data = open(outp, "rb").read() if (os.path.exists(outp) and p.returncode == 0) else b""
            results[i] = (p.returncode, core.sha(data)[:16] if data else "none", core.sha(p.stdout)[:16], p.stdout)
    ts = [threading.Thread(target=worker) for _ in range(core.NCPU)]
    for t in ts:
        t.start()
    for t in ts:
        t.join()
    # trace
    events, index = [], []
    for (si, k, perm, d, args, env), (rc, out, rep, stdout) in zip(jobs, results):
        e = {"ev": "perm" if perm else "run", "c": "s%d" % si, "out": out, "exit": rc}
        if not perm:
            e["report"] = rep
        events.append(e)
        index.append((si, k, perm))
    excluded = set()
    n_validated = 0
    for _ in range(40):
        lines = [json.dumps(e) for e, ix in zip(events, index) if ix[0] not in excluded]
        ixs = [ix for ix in index if ix[0] not in excluded]
        r = core.run_tlc("Trace_Determinism.tla", "Trace_Determinism.cfg", workers=1, timeout=1800, want_emits=False,
                         extra_files={"trace.ndjson": "\n".join(lines) + "\n"})
        core.check_tlc_error(r, "validating determinism runs")
        hw = None
        for ln in r.raw_tail.split("\n"):
            if ln.startswith('<<"HW"'):
                hw = int(ln.strip("<>").split(",")[1])
        if hw is None:
            raise core.InfraError("trace validation gave no high-water mark:\n" + r.raw_tail[-1500:])
        if hw == len(lines) + 1:
            n_validated = len(lines)
            break
        si, k, perm = ixs[hw - 1]
        sc = scenarios[si]
        runs = [(kk, results[i]) for i, (s2, kk, pp, *_r) in enumerate(jobs) if s2 == si]
        outs = sorted({x[1][1] for x in runs if x[0] < R})
        reps = sorted({x[1][2] for x in runs if x[0] < R})
        diff = None
        if len(reps) > 1:
            a = next(x[1][3] for x in runs if x[1][2] == reps[0]).decode("utf8", "replace").split("\n")
            b = next(x[1][3] for x in runs if x[1][2] == reps[1]).decode("utf8", "replace").split("\n")
            diff = [(x, y) for x, y in zip(a, b) if x != y][:4]
        v.disagree("permuted-keys-change-output" if perm else "repeated-runs-differ", {"scenario": sc["name"], "index": si},
                   {"distinct_outputs_same_content": outs, "distinct_reports_same_content": len(reps), "first_report_difference": diff,
                    "exits": sorted({x[1][0] for x in runs})},
                   tags={"scenario": sc["name"], "what": "file" if (perm or len(outs) > 1) else "report"})
        excluded.add(si)
    shutil.rmtree(wd, ignore_errors=True)
    rc = v.finish(tier, t0)
    core.write_evidence(pid, tier, "exploration", {
        "evaluations": len(jobs), "distinct_nontrivial": len(scenarios),
        "rule": "scenarios = configurations sampled (seeded) from the TLC families build / tags (several files) / imports / Deps X and D (several "
                "simultaneous output defects) plus hand-made ones aimed at every place the code ranges over a Go map (several invalid meta "
                "entries, files matched by two patterns, all grammar defects at once, prefix-related aliases with many imports, keys differing "
                "by case); each is run %d times in fresh processes with different environment and working directory and %d times with permuted "
                "mapping keys; all are non-trivial (>= 2 entries at some iteration site)" % (R, P),
        "samples": [{"scenario": scenarios[-2]["name"], "events": events[-(R + P):][:3]}],
        "states": tlc_states, "traces_validated_against_impl": n_validated, "scenarios": len(scenarios), "runs_per_scenario": R, "permutations_per_scenario": P,
        "known_findings_hit": {k: n for k, (f, n) in v.known_hit.items()},
    }, time.time() - t0, violations=len(v.violations), assumptions=[
        "Go's map iteration order cannot be scheduled: with two distinguishable entries at a site each fresh process has about one chance in two "
        "of the other order, so an order dependence at a visited site escapes R runs with probability about 2^(1-R)",
        "reports are compared only between runs with identical file contents; key permutations are compared on the generated file and exit status"])
    return rc
