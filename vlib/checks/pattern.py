"""C03: parameter / %pattern% evaluation. TLC enumerates every symbol string up to a bound (MC_Pattern), with
the verdict and chunk structure Pattern.tla demands; each abstract string is instantiated with concrete
runes, used as a parameter value (and a sample as service arguments); build-time verdicts are compared
per string (keys named in the diagnostics), accepted strings are evaluated by the compiled container."""
import json
import os
import random
import re
import shutil
import time

from .. import core, concretise, probe as probemod

O_FAMILY = ["é", "😀", "\\", "'", "\t", "#", ":", "{", "}", ",", "/", "*", "&", "日", " ", "\x01", "`", "=", "<"]
REF_VALUES = [("int", 5), ("string", "sv"), ("bool", True), ("nil", None), ("float64", 1.5), ("uint64", 18446744073709551615), ("string", ""),
              ("float64", 3.0), ("int", -7), ("float64", -40.0), ("bool", False), ("float64", 1000.0), ("int", 0), ("float64", 0.0),
              ("string", "7"), ("string", "true"), ("string", "multi\nline \"q\" \\ */ // `"),
              ("int", 7), ("string", "1.5"), ("string", "<nil>"), ("string", "5"), ("string", "3"), ("string", "false"), ("string", "0")]
FN_DEFS = {"a": "fx.Fn", "aa": "fx.FnInt", "a7": "fx.FnE"}


def cast(t, v):
    if t == "nil":
        return "nil"
    if t == "bool":
        return "true" if v else "false"
    if t == "float64":
        return ("%f" % v).rstrip("0").rstrip(".") if v != int(v) else str(int(v))
    return str(v)


def concretize(symbols, rng):
    dot = rng.choice([".", "-"])
    out = []
    for s in symbols:
        out.append({"PCT": "%", "L": "a", "D": "7", "US": "_", "DOT": dot, "LP": "(", "RP": ")", "QT": '"', "SP": " ",
                    "NL": "\n"}.get(s) or rng.choice(O_FAMILY))
    return out


class Item:
    def __init__(self, case, rng):
        self.sym = case["s"]
        self.verdict = case["verdict"]
        self.chunks = case["chunks"]
        self.runes = concretize(self.sym, rng)
        self.text = "".join(self.runes)

    def piece(self, ch):
        return "".join(self.runes[ch["from"] - 1:ch["to"]])

    def refs(self):
        return [self.piece(c)[1:-1] for c in self.chunks if c["k"] == "ref"]

    def expected(self, decl):
        """(type, value) of the evaluated pattern given declared reference values"""
        parts = []
        for c in self.chunks:
            k = c["k"]
            if k == "text":
                parts.append(("string", self.piece(c)))
            elif k == "pct":
                parts.append(("string", "%"))
            elif k == "ref":
                parts.append(decl[self.piece(c)[1:-1]])
            elif k == "fn":
                inner = self.piece(c)[1:-1]
                name = inner[:c["nameLen"]]
                args = inner[c["nameLen"] + 1:-1]
                if name == "aa":
                    parts.append(("int", 40 + (0 if c["args"] == "none" else 1)))
                else:
                    parts.append(("string", "probe.test/fx.%s(%s)" % ("Fn" if name == "a" else "FnE", args)))
        if len(parts) == 1:
            return parts[0]
        return ("string", "".join(cast(t, v) for t, v in parts))


def observed_lit(term):
    if term.get("k") == "nil":
        return ("nil", None)
    if term.get("k") != "lit":
        return ("?", json.dumps(term))
    t, v = term["t"], term["v"]
    if t == "int" or t == "uint64":
        return (t, int(v))
    if t == "bool":
        return (t, v == "true")
    if t == "float64":
        return (t, float(v))
    return (t, v)


def run_c03(tier):
    pid = "C03"
    t0 = time.time()
    rng = random.Random(core.seed())
    v = core.Verdict(pid)
    envtable = []
    cases = []

    def on_emit(o):
        if "env" in o:
            envtable.extend(o["env"])
        else:
            cases.append(o)
    r = core.run_tlc("MC_Pattern.tla", "MC_Pattern_%s.cfg" % tier, timeout=3000, on_emit=on_emit)
    if r.violation:
        raise core.InfraError("TLC: design-level invariant violated in MC_Pattern:\n" + r.raw_tail[-2000:])
    # strings of the shape %a( ... )%: what may stand between the parentheses (quotes, parentheses, spaces)
    rf = core.run_tlc("MC_Pattern.tla", "MC_Pattern_fn_%s.cfg" % tier, timeout=3000, on_emit=on_emit)
    if rf.violation:
        raise core.InfraError("TLC: design-level invariant violated in MC_Pattern (fn):\n" + rf.raw_tail[-2000:])
    r.states += rf.states
    r.generated += rf.generated
    items = [Item(c, rng) for c in cases]
    counts = {"ok": 0, "reject": 0, "unconstrained": 0}
    for it in items:
        counts[it.verdict] += 1
    judged = [it for it in items if it.verdict != "unconstrained"]
    rng.shuffle(judged)
    wd = core.subdir("c03")
    meta = {"imports": {"fx": "probe.test/fx"}, "functions": dict(FN_DEFS)}

    def declare(batch, k=0):
        decl = {}
        for it in batch:
            if it.verdict == "ok":
                for n in it.refs():
                    if n not in decl:
                        decl[n] = REF_VALUES[k % len(REF_VALUES)]
                        k += 1
        return decl

    def yaml_of(batch, decl, with_service=None):
        params = {"q%d" % i: it.text for i, it in enumerate(batch)}
        for n, (t, val) in decl.items():
            params[n] = val
        if with_service is not None:
            # every literal kind side by side (values that print alike and differ in type included), directly and through a reference
            for li, (t, val) in enumerate(REF_VALUES):
                params["zlit%d" % li] = val
                params["zref%d" % li] = "%%zlit%d%%" % li
        doc = {"meta": meta, "parameters": params}
        if with_service:
            doc["services"] = {"s1": {"constructor": "fx.NewA", "arguments": [batch[i].text for i in with_service], "tags": ["dt"]}}
            doc["decorators"] = [{"tag": "dt", "decorator": "fx.Decorate", "arguments": [batch[i].text for i in with_service]}]
        return concretise.emit(doc, rng) + "\n"

    # ---- phase A: build-time verdict per string
    B = 300
    batches = [judged[i:i + B] for i in range(0, len(judged), B)]
    jobs = []
    for bi, batch in enumerate(batches):
        d = os.path.join(wd, "a%05d" % bi)
        os.makedirs(d)
        with open(os.path.join(d, "in.yaml"), "w") as f:
            f.write(yaml_of(batch, declare(batch, bi)))
        jobs.append({"id": bi, "dir": d, "args": ["-i", "in.yaml", "-o", "out.go"], "version": "dev-main", "buildinfo": "verif", "out": "out.go"})
    pool = core.DriverPool()
    try:
        res = pool.run_all(jobs)
        tool_ok = []
        suspects = []
        for batch, rs in zip(batches, res):
            want = {"q%d" % i for i, it in enumerate(batch) if it.verdict == "reject"}
            if rs["exit"] not in (0, 1):
                v.disagree("abnormal-exit", {"batch": [it.text for it in batch[:5]]}, {"exit": rs["exit"], "panic": rs.get("panic", "")[:400]})
                continue
            rep = core.Report(rs["stdout"])
            got = set()
            if rs["exit"] == 1:
                ft = rep.failing_top()
                if ft is None or ft["name"] != "Compile":
                    v.disagree("unexpected-failing-step", {"batch": [it.text for it in batch[:5]]}, {"step": ft, "errors": rep.errors[:4]})
                    continue
                for e in rep.errors:
                    m = re.search(r'(?<![A-Za-z0-9_.-])(q\d+)(?![A-Za-z0-9_-])', e)
                    if m:
                        got.add(m.group(1))
            for i, it in enumerate(batch):
                name = "q%d" % i
                if (name in want) != (name in got):
                    suspects.append(it)
                elif it.verdict == "ok":
                    tool_ok.append(it)
        # confirm every suspect alone before reporting (batches could interact)
        jobs2 = []
        for si, it in enumerate(suspects):
            d = os.path.join(wd, "s%05d" % si)
            os.makedirs(d)
            with open(os.path.join(d, "in.yaml"), "w") as f:
                f.write(yaml_of([it], declare([it])))
            jobs2.append({"id": si, "dir": d, "args": ["-i", "in.yaml", "-o", "out.go"], "version": "dev-main", "buildinfo": "verif", "out": "out.go"})
        res2 = pool.run_all(jobs2) if jobs2 else []
    finally:
        pool.close()
    for it, rs in zip(suspects, res2):
        rejected = rs["exit"] != 0
        if rejected != (it.verdict == "reject"):
            v.disagree("build-time-verdict", {"string": it.text, "symbols": it.sym}, {"model": it.verdict, "tool_rejects": rejected,
                                                                                   "errors": core.Report(rs["stdout"]).errors[:3]})
        elif it.verdict == "ok":
            tool_ok.append(it)
    # ---- phase A': strings whose tokens contain line breaks or tabs (outside the symbol alphabet of the quick bound): a token never
    # spans lines (Pattern.tla: IsFnShape excludes NL between the parentheses, a reference is a YamlToken), so every one is rejected
    broken_tokens = ['%a(\n)%', '%a("x",\n"y")%', 'x%a(1,\n2)%y', '%a("x"\r\n)%', '%a\n%', '%a\nb%', '%\na%', '%a(\n', '%todo(\n"later")%',
                     '%env("X",\n"d")%', '%envInt(\n"X")%', '%a\t%', '%a b%']
    pool = core.DriverPool()
    try:
        bj = []
        for bi, txt in enumerate(broken_tokens):
            d = os.path.join(wd, "b%03d" % bi)
            os.makedirs(d)
            doc = {"meta": meta, "parameters": {"a": 1, "b": 2, "q": txt}, "services": {"s1": {"constructor": "fx.NewA", "arguments": [txt]}}}
            with open(os.path.join(d, "in.yaml"), "w") as f:
                f.write(concretise.emit(doc, rng) + "\n")
            bj.append({"id": bi, "dir": d, "args": ["-i", "in.yaml", "-o", "out.go"], "version": "dev-main", "buildinfo": "verif", "out": "out.go"})
        bres = pool.run_all(bj)
    finally:
        pool.close()
    for txt, rs in zip(broken_tokens, bres):
        if rs["exit"] == 0:
            v.disagree("build-time-verdict", {"string": txt}, {"model": "reject", "tool_rejects": False})
        elif rs["exit"] != 1:
            v.disagree("abnormal-exit", {"string": txt}, {"exit": rs["exit"], "panic": rs.get("panic", "")[:300]})
    # ---- phase B: values of accepted strings
    n_eval = 0
    if tool_ok:
        EB = 150
        ebatches = [tool_ok[i:i + EB] for i in range(0, len(tool_ok), EB)]
        pool = core.DriverPool()
        jobs, decls = [], []
        for bi, batch in enumerate(ebatches):
            d = os.path.join(wd, "e%05d" % bi)
            os.makedirs(d)
            decl = declare(batch, bi)
            decls.append(decl)
            svc_idx = list(range(0, len(batch), max(1, len(batch) // 12)))[:12]
            with open(os.path.join(d, "in.yaml"), "w") as f:
                f.write(yaml_of(batch, decl, with_service=svc_idx))
            jobs.append({"id": bi, "dir": d, "args": ["-i", "in.yaml", "-o", "out.go"], "version": "dev-main", "buildinfo": "verif",
                         "out": "out.go", "want_out": True, "_svc": svc_idx})
        try:
            res = pool.run_all([{k: x for k, x in j.items() if k != "_svc"} for j in jobs])
        finally:
            pool.close()
        pb = probemod.Probe(name="probe-C03")
        live = []
        for bi, (batch, rs) in enumerate(zip(ebatches, res)):
            if rs["exit"] != 0:
                v.disagree("accepted-strings-rejected-together", {"strings": [it.text for it in batch[:8]]},
                           {"errors": core.Report(rs["stdout"]).errors[:4]})
                continue
            pb.add("e%05d" % bi, rs["out_data"])
            live.append(bi)
        good = set(pb.build())
        scripts = []
        for bi in live:
            name = "e%05d" % bi
            if name not in good:
                continue              # C01's business
            ops = [{"op": "GetParam", "id": "q%d" % i} for i in range(len(ebatches[bi]))] + [{"op": "Get", "id": "s1"}]
            ops += [{"op": "GetParam", "id": "z%s%d" % (w, li)} for li in range(len(REF_VALUES)) for w in ("lit", "ref")]
            scripts.append({"id": bi, "pkg": name, "ops": ops})
        out = pb.run(scripts)
        for bi in live:
            rr = out.get(bi)
            if rr is None:
                continue
            if rr.get("crashed") is not None or rr.get("timeout") or rr.get("err"):
                v.disagree("probe", {"batch": bi}, {k: rr.get(k) for k in ("crashed", "timeout", "err", "stderr")})
                continue
            batch, decl = ebatches[bi], decls[bi]
            for i, it in enumerate(batch):
                o = rr["res"][i]
                n_eval += 1
                want = it.expected(decl)
                if "ok" not in o:
                    v.disagree("evaluation-error", {"string": it.text, "symbols": it.sym}, {"expected": want, "observed": o})
                    continue
                got = observed_lit(o["ok"])
                if got != want and not (want[0] == "float64" and got[0] == "float64" and abs(got[1] - want[1]) < 1e-9):
                    v.disagree("evaluated-value", {"string": it.text, "symbols": it.sym}, {"expected": want, "observed": got})
            for li, want in enumerate(REF_VALUES):
                for wi, w in enumerate(("lit", "ref")):
                    o = rr["res"][len(batch) + 1 + 2 * li + wi]
                    got = observed_lit(o["ok"]) if "ok" in o else ("error", o.get("err"))
                    if got != tuple(want) and not (want[0] == "float64" and got[0] == "float64" and abs(got[1] - want[1]) < 1e-9):
                        v.disagree("evaluated-value", {"string": "z%s%d" % (w, li), "literal": want}, {"expected": want, "observed": got})
            # as service arguments
            so = rr["res"][len(batch)]
            if "ok" in so:
                heap = rr["heap"]
                deco = heap.get(str(so["ok"].get("id")))          # the decorator's object; its payload holds the service
                inner = heap.get(str(((deco or {}).get("payload") or {}).get("svc", {}).get("id"))) if deco else None
                for where, body in (("decorator", deco), ("constructor", inner)):
                    if not body:
                        v.disagree("pattern-arguments-not-observable", {"batch": bi}, {"where": where})
                        continue
                    for pos, i in enumerate(jobs[bi]["_svc"]):
                        want = batch[i].expected(decl)
                        got = observed_lit(body["args"][pos])
                        if got != want:
                            v.disagree("argument-value", {"string": batch[i].text, "symbols": batch[i].sym, "position": where},
                                       {"expected": want, "observed": got})
            else:
                v.disagree("service-with-pattern-arguments-fails", {"batch": bi}, {"observed": so})
        shutil.rmtree(pb.dir, ignore_errors=True)
    n_env = env_cases(v, envtable, wd, rng)
    shutil.rmtree(wd, ignore_errors=True)
    if counts["ok"] < 5 or counts["reject"] < 5 or n_eval < 0.5 * counts["ok"]:
        if not v.violations:
            raise core.InfraError("degenerate exploration: %s evaluated=%d" % (counts, n_eval))
    rc = v.finish(tier, t0)
    smp = [it for it in items if it.verdict == "ok" and len(it.chunks) >= 2][:2] + [it for it in items if it.verdict == "reject"][5:6]
    core.write_evidence(pid, tier, "model_checking", {
        "states": r.states, "transitions": r.generated, "traces_validated_against_impl": n_eval,
        "samples": [{"symbols": it.sym, "concrete": it.text, "verdict": it.verdict, "chunks": it.chunks} for it in smp],
        "evaluations": len(judged) + n_env, "distinct_nontrivial": counts["reject"] + sum(1 for it in items if it.verdict == "ok" and any(c["k"] != "text" for c in it.chunks)),
        "rule": "every string over the symbol alphabet of MC_Pattern_%s.cfg up to its length bound; each instantiated with concrete runes "
                "(seeded; class O draws multi-byte, astral, quote, backslash, control runes), used as a parameter value and a sample as "
                "constructor arguments; non-trivial = rejected by the model or containing a %%%%, reference or function chunk; plus the "
                "env / envInt decision table and failing-function cases" % tier,
        "exhaustive": True, "model_verdicts": counts, "evaluated_by_generated_code": n_eval, "env_cases": n_env,
        "design_invariants_checked_by_tlc": ["DoublingEscapes", "OddRejected", "Tiling"],
        "known_findings_hit": {k: n for k, (f, n) in v.known_hit.items()},
    }, time.time() - t0, violations=len(v.violations), assumptions=[
        "text between the parentheses of a function call that is not a list of simple Go literals is outside the documented contract (Unconstrained): not judged",
        "the final assembly of the expected string (documented casts of int, bool, nil, float, string) from the model's chunk structure is done by the harness",
        "one concrete instantiation per abstract string per seed"])
    return rc


def env_cases(v, table, wd, rng):
    """env / envInt / failing function / todo cases from Pattern.tla's decision table"""
    if not table:
        return 0
    params, expect, envops = {}, {}, {}
    setv = {"unset": None, "empty": "", "num": "42", "text": "text", "lead0": "010", "nine": "09", "neg": "-012", "plus": "+7", "hex": "0x1F",
            "octal": "0o17", "binary": "0b101", "under": "1_000", "space": " 42", "trail": "42 ", "big": "9223372036854775808", "float": "4.0", "exp": "1e3"}
    intv = {"num": 42, "lead0": 10, "nine": 9, "neg": -12, "plus": 7}
    for i, row in enumerate(sorted(table, key=lambda x: json.dumps(x, sort_keys=True))):
        var = "VERIF_E%d" % i
        fn = row["fn"]
        dflt = (', "dflt"' if fn == "env" else ", 77") if row["def"] else ""
        name = "e%d" % i
        params[name] = '%%%s("%s"%s)%%' % (fn, var, dflt)
        envops[var] = setv[row["state"]]
        if row["outcome"] == "error":
            expect[name] = ("error", params[name])
        elif row["outcome"] == "default":
            expect[name] = ("string", "dflt") if fn == "env" else ("int", 77)
        else:
            expect[name] = ("string", setv[row["state"]]) if fn == "env" else ("int", intv[row["state"]])
    params["f1"] = '%fnE("fail")%'
    expect["f1"] = ("error", '%fnE("fail")%')
    params["f2"] = 'x-%fnE("fail")%-y'
    expect["f2"] = ("error", '%fnE("fail")%')
    # a function with typed parameters: untyped constants are converted to the parameter types
    params["ty1"] = '%fnT(5, 7, 2, "x")%'
    expect["ty1"] = ("string", "5ns|7|2|x|[]")
    params["ty2"] = 'v=%fnT(1000000000, 0, 1.5, "a b", 3, 4)%;'
    expect["ty2"] = ("string", "v=1s|0|1.5|a b|[3 4];")
    params["t1"] = "%todo()%"
    expect["t1"] = ("error", "parameter todo")
    params["t2"] = '%todo("later")%'
    expect["t2"] = ("error", "later")
    # a function registered under the name of a built-in replaces it (docs/META.md: functions: {"env": "os.Getenv"})
    doc = {"meta": {"imports": {"fx": "probe.test/fx"}, "functions": {"fnE": "fx.FnE", "fnT": "fx.FnT"}}, "parameters": params}
    doc2 = {"meta": {"imports": {"fx": "probe.test/fx"}, "functions": {"env": "fx.Fn", "todo": "fx.FnInt"}},
            "parameters": {"o1": '%env("VERIF_E0")%', "o2": "%todo()%", "o3": '%envInt("VERIF_UNSET_X", 3)%'}}
    expect2 = {"o1": ("string", 'probe.test/fx.Fn("VERIF_E0")'), "o2": ("int", 40), "o3": ("int", 3)}
    d = os.path.join(wd, "env")
    os.makedirs(d)
    with open(os.path.join(d, "in.yaml"), "w") as f:
        f.write(concretise.emit(doc, rng) + "\n")
    d2 = os.path.join(wd, "env2")
    os.makedirs(d2)
    with open(os.path.join(d2, "in.yaml"), "w") as f:
        f.write(concretise.emit(doc2, rng) + "\n")
    pool = core.DriverPool(1)
    try:
        rs, rs2 = pool.run_all([{"id": 0, "dir": d, "args": ["-i", "in.yaml", "-o", "out.go"], "version": "dev-main", "buildinfo": "verif",
                                 "out": "out.go", "want_out": True},
                                {"id": 1, "dir": d2, "args": ["-i", "in.yaml", "-o", "out.go"], "version": "dev-main", "buildinfo": "verif",
                                 "out": "out.go", "want_out": True}])
    finally:
        pool.close()
    if rs["exit"] != 0:
        v.disagree("env-config-rejected", {"yaml": open(os.path.join(d, "in.yaml")).read()}, {"errors": core.Report(rs["stdout"]).errors[:5]})
        return 0
    pb = probemod.Probe(name="probe-C03-env")
    pb.add("envpkg", rs["out_data"])
    if rs2["exit"] == 0:
        pb.add("envpkg2", rs2["out_data"])
    else:
        v.disagree("env-config-rejected", {"yaml": concretise.emit(doc2, None)}, {"errors": core.Report(rs2["stdout"]).errors[:5]})
    built = set(pb.build())
    if "envpkg" not in built:
        return 0
    names = sorted(expect)
    ops = [{"op": "Env", "set": {k: x for k, x in envops.items() if x is not None}, "unset": [k for k, x in envops.items() if x is None]}]
    ops += [{"op": "GetParam", "id": n} for n in names]
    scripts = [{"id": 0, "pkg": "envpkg", "ops": ops}]
    if "envpkg2" in built:
        scripts.append({"id": 1, "pkg": "envpkg2", "ops": [{"op": "GetParam", "id": n} for n in sorted(expect2)]})
    outs = pb.run(scripts)
    rr = outs[0]
    shutil.rmtree(pb.dir, ignore_errors=True)
    if 1 in outs and not outs[1].get("crashed") and not outs[1].get("err"):
        for n, o in zip(sorted(expect2), outs[1]["res"]):
            if "ok" not in o or observed_lit(o["ok"]) != expect2[n]:
                v.disagree("user-function-does-not-replace-built-in", {"param": doc2["parameters"][n], "functions": doc2["meta"]["functions"]},
                           {"expected": expect2[n], "observed": o})
    if rr.get("crashed") is not None or rr.get("err"):
        v.disagree("probe", {"env": True}, {k: rr.get(k) for k in ("crashed", "err", "stderr")})
        return 0
    for n, o in zip(names, rr["res"][1:]):
        want = expect[n]
        if want[0] == "error":
            if "err" not in o:
                v.disagree("function-should-fail", {"param": params[n]}, {"observed": o})
            elif want[1] not in o["err"]:
                v.disagree("error-does-not-name-the-token", {"param": params[n]}, {"expected_to_mention": want[1], "error": o["err"]})
        else:
            if "ok" not in o or observed_lit(o["ok"]) != want:
                v.disagree("env-value", {"param": params[n], "env": envops}, {"expected": want, "observed": o})
    return len(names)
