"""C01 (accepted configurations yield Go code that compiles) and C17 (--stub parity).

The accepted space is decided by the specification, not by the tool: TLC enumerates the families of
MC_Container (pairwise feature vectors, literal kinds, tags/decorators over several files, API table,
todo placeholders) and MC_Imports; for each configuration the tool built from /repo is run in normal
and in --stub mode; sensors: gofmt -l, the Go compiler (normal output linked with the real runtime and
the fixture universe; stub output built with -tags gontainerstub against a TYPES-ONLY fixture universe),
package initialisation (the probe starts), reflection (method sets of both outputs), and calls of every
stub method (must panic)."""
import json
import os
import random
import re
import shutil
import subprocess
import time

from .. import core, concretise, probe as probemod
from . import container

BASE_API = container.BASE_API

# (family, cfg file, keep every k-th configuration in the quick tier)
FAMILIES = {
    "quick": [("lits", "MC_Container.tla", "MC_Container_lits.cfg", 1), ("forms", "MC_Container.tla", "MC_Container_forms.cfg", 1), ("build", "MC_Container.tla", "MC_Container_build.cfg", 1),
              ("apiq", "MC_Container.tla", "MC_Container_apiq.cfg", 1), ("tagsq", "MC_Container.tla", "MC_Container_tagsq.cfg", 11),
              ("todo", "MC_Container.tla", "MC_Container_todo.cfg", 1)],
    "thorough": [("lits", "MC_Container.tla", "MC_Container_lits.cfg", 1), ("forms", "MC_Container.tla", "MC_Container_forms.cfg", 1), ("build", "MC_Container.tla", "MC_Container_build.cfg", 1),
                 ("api", "MC_Container.tla", "MC_Container_api.cfg", 1), ("tags", "MC_Container.tla", "MC_Container_tags.cfg", 3),
                 ("todo", "MC_Container.tla", "MC_Container_todo.cfg", 1)],
}


def names_of(cfg):
    m = cfg["meta"]
    return {"pkg": m["pkg"] if m["pkg"] != "~" else "main",
            "ctype": m["ctype"] if m["ctype"] != "~" else "Gontainer",
            "cctor": m["cctor"] if m["cctor"] != "~" else "NewGontainer"}


def features(cfg):
    """coarse feature tags of a configuration, used to match known findings"""
    txt = json.dumps(cfg)
    f = set()
    if '"+Inf"' in txt or '"-Inf"' in txt or '"NaN"' in txt:
        f.add("nonfinite-float")
    return sorted(f)


def collect(tier, extra_families=()):
    """returns list of entries: dict(files, cfg, model_accepts, family)"""
    entries, seen, stats = [], set(), []
    for fam, module, cfgname, step in list(FAMILIES[tier]) + list(extra_families):
        r = core.run_tlc(module, cfgname, timeout=3000)
        if r.violation:
            raise core.InfraError("TLC: design-level invariant violated in %s:\n%s" % (cfgname, r.raw_tail[-2000:]))
        n = 0
        keys = []
        for c in r.emitted:
            files = c.get("files") or [c["cfg"]]
            key = json.dumps(files, sort_keys=True)
            if key in seen:
                continue
            seen.add(key)
            keys.append((key, c, files))
        keys.sort(key=lambda x: x[0])
        for i, (key, c, files) in enumerate(keys):
            if (i + core.seed()) % step != 0:
                continue
            acc = c["api"]["accept"] if "api" in c and fam.startswith("api") else True
            entries.append({"files": files, "cfg": c["cfg"], "model_accepts": acc, "family": fam, "name": "c%05d" % len(entries)})
            n += 1
        stats.append({"family": fam, "tlc_states": r.states, "tlc_generated": r.generated, "configurations": n})
    return entries, stats


ODD_REFS = ["fx.New[int string]", "fx.NewA[int]", "fx.New A", "fx.NewA()", "fx..NewA", "fx.NewA.", "fx.New-A", "fx.NewA[", "*fx.NewA", "&fx.NewA",
            "fx.NewA{}", "fx/.NewA", "fx.NewA // x", "func() {}", "fx.NewA; panic(1)", "fx.NewA\n", "fx.NewA[T any]", "fx.NewA[[]int]", "(fx.NewA)"]
ODD_VALUES = ["fx.Var[0]", "fx.Var()", "&fx.S{a: 1}", "fx.S{}.X", "&fx.S{}{}", "fx.Var.", "fx.Var[int]", "&&fx.Var", "fx.S[int]{}", "new(fx.S)"]
ODD_TYPES = ["*fx.T[int]", "[]fx.T", "map[string]fx.T", "fx.T{}", "**fx.T", "fx.T[int string]", "*fx.T // x", "func()", "chan fx.T", "fx.T.U"]
ODD_NAMES = ["Set X", "SetX()", "SetX[int]", "Set-X", "SetX.Y", "1SetX", "SetX\n", "SetX // c", "Set(X)", ""]


def odd_documents():
    """configurations with one malformed or almost-valid reference / name in every position that holds Go text, and the grammar
    defect classes of C11: whatever the verdict is, it must not depend on the mode"""
    from . import grammar
    docs = []

    def base():
        return {"meta": {"imports": {"fx": "probe.test/fx"}, "functions": {"fn": "fx.Fn"}}, "parameters": {"p": "%fn()%"},
                "services": {"s": {"constructor": "fx.NewA", "tags": ["t"]}}, "decorators": [{"tag": "t", "decorator": "fx.Decorate"}]}
    for r in ODD_REFS:
        for where in ("constructor", "decorator", "function"):
            d = base()
            if where == "constructor":
                d["services"]["s"]["constructor"] = r
            elif where == "decorator":
                d["decorators"][0]["decorator"] = r
            else:
                d["meta"]["functions"]["fn"] = r
            docs.append(("odd-" + where, d))
    for x in ODD_VALUES:
        d = base()
        d["services"]["s"] = {"value": x}
        docs.append(("odd-value", d))
        d = base()
        d["services"]["s"]["arguments"] = ["!value " + x]
        docs.append(("odd-value-argument", d))
    for x in ODD_TYPES:
        for g in (True, False):
            d = base()
            d["services"]["s"]["type"] = x
            if g:
                d["services"]["s"]["getter"] = "GetS"
            docs.append(("odd-type", d))
    for x in ODD_NAMES:
        d = base()
        d["services"]["s"]["calls"] = [[x, [1]]]
        docs.append(("odd-method", d))
        d = base()
        d["services"]["s"]["calls"] = [[x, [1], True]]
        docs.append(("odd-wither", d))
        d = base()
        d["services"]["s"]["fields"] = {x: 1}
        docs.append(("odd-field", d))
        d = base()
        d["services"]["s"]["getter"] = x
        d["services"]["s"]["type"] = "*fx.T"
        docs.append(("odd-getter", d))
        for k in ("pkg", "container_type", "container_constructor"):
            d = base()
            d["meta"][k] = x
            docs.append(("odd-meta-" + k, d))
    for kind in sorted(grammar.DEFECTS):
        d = grammar.base_doc()
        grammar.DEFECTS[kind][0](d)
        docs.append(("grammar-" + kind, d))
    # legal but unusual names: package-private getters, container type and constructor (reflection cannot see unexported methods)
    for g in ("conn", "getS", "x", "s_1", "Ünï"):
        for must in (None, True):
            d = base()
            d["services"]["s"]["getter"] = g
            d["services"]["s"]["type"] = "*fx.T"
            if must:
                d["services"]["s"]["must_getter"] = True
            docs.append(("private-getter", d))
    d = base()
    d["meta"].update({"container_type": "wiring", "container_constructor": "newWiring", "pkg": "p_1"})
    d["services"]["s"]["getter"] = "GetS"
    docs.append(("private-container", d))
    return docs


def declared_surface(src):
    """package clause, declared methods of every receiver (unexported ones included - reflection does not see those) and top-level
    functions, with parameter and result types (names dropped)"""
    import re
    ms = set()
    for recv, name, params, results in re.findall(r"(?m)^func \(\w+ \*?(\w+)\) (\w+)\(([^)]*)\) ?(\([^)]*\)|[^ {]*)", src):
        if name.startswith("_"):
            continue            # the stub has none of the private helpers
        results = ", ".join(x.strip().split(" ")[-1] for x in results.strip("()").split(",") if x.strip())
        params = ", ".join(x.strip().split(" ")[-1] for x in params.split(",") if x.strip())
        ms.add((recv, name, params, results))
    return {"package": re.findall(r"(?m)^package (\w+)", src)[:1], "methods": sorted(ms),
            "funcs": sorted(set(re.findall(r"(?m)^func (\w+)\(", src)))}


def makefile_workflow(v, wd):
    """the project's own use of the two modes: `make self-compile` and `make generate-stub` (Makefile) with the tool built from the
    tree on PATH, in a scratch copy of the tree: equal verdicts, the stub declares the API of the real wiring"""
    import re
    import subprocess
    if shutil.which("make") is None:
        return {"skipped": "make not installed"}
    tree = os.path.join(wd, "mk-tree")
    shutil.copytree(core.REPO, tree, ignore=shutil.ignore_patterns(".git"))
    bindir = os.path.join(wd, "mk-bin")
    os.makedirs(bindir)
    core.sh(["go", "build", "-o", os.path.join(bindir, "gontainer"), "."], cwd=tree)
    env = dict(os.environ, PATH=bindir + os.pathsep + os.environ.get("PATH", ""))
    res = {}
    for target in ("self-compile", "generate-stub"):
        p = subprocess.run(["make", target], cwd=tree, env=env, stdout=subprocess.PIPE, stderr=subprocess.STDOUT, timeout=300)
        res[target] = {"rc": p.returncode, "out": p.stdout.decode("utf8", "replace")[-700:]}
    case = {"commands": "make self-compile; make generate-stub (scratch copy of the tree, tool built from it)"}
    if (res["self-compile"]["rc"] == 0) != (res["generate-stub"]["rc"] == 0):
        v.disagree("verdict-differs-between-modes", case, res, tags={"family": "makefile"})
        return {"targets": {k: x["rc"] for k, x in res.items()}}
    if res["self-compile"]["rc"] != 0:
        v.disagree("makefile-targets-fail", case, res, tags={"family": "makefile"})
        return {"targets": {k: x["rc"] for k, x in res.items()}}

    def surface(path):
        src = open(path).read()
        ms = set()
        for recv, name, params, results in re.findall(r"(?m)^func \(\w+ \*(\w+)\) ([A-Z]\w*)\(([^)]*)\) ?(\([^)]*\)|[^ {]*)", src):
            # result names are not part of a signature
            results = ", ".join(x.strip().split(" ")[-1] for x in results.strip("()").split(",") if x.strip())
            params = ", ".join(x.strip().split(" ")[-1] for x in params.split(",") if x.strip())
            ms.add((recv, name, params, results))
        return {"package": re.findall(r"(?m)^package (\w+)", src)[:1],
                "methods": sorted(ms),
                "funcs": sorted(set(re.findall(r"(?m)^func ([A-Z]\w*)\(", src))),
                "constraint": "//go:build gontainerstub" in src[:300]}
    n = surface(os.path.join(tree, "internal/gontainer/gontainer.go"))
    st = surface(os.path.join(tree, "internal/gontainer/stub.go"))
    if not st["constraint"]:
        v.disagree("stub-build-constraint-missing", case, {"file": "internal/gontainer/stub.go"}, tags={"family": "makefile"})
    if (n["package"], n["methods"], n["funcs"]) != (st["package"], st["methods"], st["funcs"]):
        v.disagree("api-differs", case, {"only_normal": [m for m in n["methods"] if m not in st["methods"]][:8],
                                         "only_stub": [m for m in st["methods"] if m not in n["methods"]][:8],
                                         "funcs": [n["funcs"], st["funcs"]], "package": [n["package"], st["package"]]}, tags={"family": "makefile"})
    # the stub alone (the real wiring absent, as when bootstrapping) must be enough to compile the tool
    os.remove(os.path.join(tree, "internal/gontainer/gontainer.go"))
    pb = core.sh(["go", "build", "-tags", "gontainerstub", "./..."], cwd=tree, check=False)
    if pb.returncode != 0:
        v.disagree("stub-does-not-compile", case, {"compiler": pb.stdout[-800:]}, tags={"family": "makefile"})
    return {"targets": {k: x["rc"] for k, x in res.items()}, "methods_compared": len(n["methods"])}


def generate_both(entries, rng, wd):
    pool = core.DriverPool()
    jobs = []
    for e in entries:
        d = os.path.join(wd, "in", e["name"])
        os.makedirs(d, exist_ok=True)
        yamls = e["raw"] if e.get("raw") else [concretise.to_yaml(fc, rng) for fc in e["files"]]
        e["yaml"] = "\n--- next file ---\n".join(yamls)
        ins = []
        for k, y in enumerate(yamls):
            with open(os.path.join(d, "in%d.yaml" % k), "w") as f:
                f.write(y)
            ins += ["-i", "in%d.yaml" % k]
        for mode in ("normal", "stub"):
            # the -o path already holds a longer file: what is written must be the complete new content
            with open(os.path.join(d, mode + ".go"), "w") as f:
                f.write("// previous content\n" + "// filler filler filler filler\n" * 6000)
            jobs.append({"id": len(jobs), "dir": d, "args": ins + ["-o", mode + ".go"] + (["--stub"] if mode == "stub" else []),
                         "version": "dev-main", "buildinfo": "verif", "out": mode + ".go", "want_out": True})
    try:
        res = pool.run_all(jobs)
    finally:
        pool.close()
    for i, e in enumerate(entries):
        e["normal"], e["stub"] = res[2 * i], res[2 * i + 1]


def gofmt_unstable(paths):
    bad = set()
    for i in range(0, len(paths), 400):
        p = subprocess.run(["gofmt", "-l"] + paths[i:i + 400], stdout=subprocess.PIPE, stderr=subprocess.PIPE, text=True)
        if p.returncode != 0 and not p.stdout:
            # syntax errors are printed on stderr with the file name
            for line in p.stderr.split("\n"):
                m = re.match(r"^(\S+\.go):\d+", line)
                if m:
                    bad.add(m.group(1))
        for line in p.stdout.split("\n"):
            if line.strip():
                bad.add(line.strip())
    return bad


def build_batches(entries, mode, types_only, label):
    """compile entries' outputs of the given mode; returns dict name -> probe result (script run), and failures"""
    results, failures = {}, {}
    todo = [e for e in entries if e[mode]["exit"] == 0 and e[mode].get("out_data")]
    for bi in range(0, len(todo), 250):
        chunk = todo[bi:bi + 250]
        pb = probemod.Probe(name="probe-%s-%s-%d" % (label, mode, bi), types_only=types_only)
        for e in chunk:
            nm = names_of(e["cfg"])
            pb.add(e["name"], e[mode]["out_data"], ctor=nm["cctor"], ctype=nm["ctype"], stub=(mode == "stub"))
        good = set(pb.build(tags="gontainerstub" if mode == "stub" else None))
        for n, msg in pb.failed.items():
            failures[n] = msg
        scripts = [{"id": i, "pkg": e["name"], "ops": [{"op": "Methods"}]} for i, e in enumerate(chunk) if e["name"] in good]
        try:
            res = pb.run(scripts)
        except Exception as ex:  # pragma: no cover
            raise core.InfraError("probe run failed: %s" % ex)
        for s in scripts:
            results[s["pkg"]] = (res[s["id"]], pb.pkgs[s["pkg"]]["declared_pkg"])
        shutil.rmtree(pb.dir, ignore_errors=True)
    return results, failures


def run(pid, tier):
    t0 = time.time()
    rng = random.Random(core.seed())
    v = core.Verdict(pid)
    wd = core.subdir("cc-" + pid)
    extra = []
    try:
        from . import imports as importsmod
        extra = importsmod.compile_families(tier)
    except ImportError:
        pass
    if pid == "C17":     # rejected configurations as well: the verdict must not depend on the mode
        extra = list(extra) + [("N", "MC_Deps.tla", "MC_Deps_N.cfg", 1), ("X", "MC_Deps.tla", "MC_Deps_X.cfg", 1)]
    entries, stats = collect(tier, extra)
    n_odd = 0
    if pid == "C17":
        for label, doc in odd_documents():
            entries.append({"raw": [concretise.emit(doc, rng) + "\n"], "cfg": None, "files": [], "model_accepts": None, "family": label,
                            "name": "c%05d" % len(entries)})
            n_odd += 1
    generate_both(entries, rng, wd)
    n_acc = n_rej = 0
    # ---- verdicts
    for e in entries:
        for mode in ("normal", "stub"):
            if e[mode]["exit"] not in (0, 1):
                v.disagree("abnormal-exit", {"yaml": e["yaml"], "mode": mode}, {"exit": e[mode]["exit"], "panic": e[mode].get("panic", "")[:400]})
        if e["normal"]["exit"] == 0:
            n_acc += 1
        else:
            n_rej += 1
        if pid == "C17" and (e["normal"]["exit"] == 0) != (e["stub"]["exit"] == 0):
            v.disagree("verdict-differs-between-modes", {"yaml": e["yaml"]},
                       {"normal": e["normal"]["exit"], "stub": e["stub"]["exit"],
                        "errors": core.Report(e["normal"]["stdout"] if e["normal"]["exit"] else e["stub"]["stdout"]).errors[:4]})
    if pid == "C17":
        for e in entries:
            if e["normal"]["exit"] == 0 and e["stub"]["exit"] == 0 and e["normal"].get("out_data") and e["stub"].get("out_data"):
                a, b = declared_surface(e["normal"]["out_data"]), declared_surface(e["stub"]["out_data"])
                if a != b:
                    v.disagree("api-differs", {"yaml": e["yaml"]}, {"declared_only_in_normal": [m for m in a["methods"] if m not in b["methods"]][:6],
                                                                    "declared_only_in_stub": [m for m in b["methods"] if m not in a["methods"]][:6],
                                                                    "package": [a["package"], b["package"]], "funcs": [a["funcs"], b["funcs"]]},
                               tags={"family": e["family"]})
    ok_entries = [e for e in entries if e["normal"]["exit"] == 0 and e["stub"]["exit"] == 0 and not e.get("raw")]
    # ---- gofmt
    paths = []
    for e in ok_entries:
        for mode in ("normal", "stub"):
            paths.append(os.path.join(wd, "in", e["name"], mode + ".go"))
    unstable = gofmt_unstable(paths) if pid == "C01" else set()
    for p in sorted(unstable):
        e = next(x for x in ok_entries if x["name"] == os.path.basename(os.path.dirname(p)))
        v.disagree("not-gofmt-stable", {"yaml": e["yaml"], "mode": os.path.basename(p)}, {"file": p}, tags={"features": features(e["cfg"])})
    # ---- compile + start
    nres, nfail = build_batches(ok_entries, "normal", False, pid)
    sres, sfail = build_batches(ok_entries, "stub", True, pid)
    sfail_full = {}
    if sfail:
        # types-only failures: try again with the full fixture universe to tell "references values" from "ill-typed"
        again = [e for e in ok_entries if e["name"] in sfail]
        _, sfail_full = build_batches(again, "stub", False, pid + "-full")
    n_checked = 0
    for e in ok_entries:
        n = e["name"]
        tags = {"features": features(e["cfg"]), "family": e["family"]}
        if pid == "C01":
            if n in nfail:
                v.disagree("does-not-compile", {"yaml": e["yaml"], "mode": "normal"}, {"compiler": nfail[n][:5]}, tags=tags)
                continue
            if n in sfail and n in sfail_full:
                v.disagree("does-not-compile", {"yaml": e["yaml"], "mode": "stub"}, {"compiler": sfail_full[n][:5]}, tags=tags)
                continue
            r = nres.get(n)
            if r is None or r[0].get("crashed") is not None or r[0].get("err"):
                v.disagree("init-or-constructor-panics", {"yaml": e["yaml"]}, {"probe": None if r is None else {k: r[0].get(k) for k in ("crashed", "err", "stderr")}}, tags=tags)
                continue
            n_checked += 1
        else:  # C17
            if n in nfail:
                continue          # C01's business; parity is unobservable
            if n in sfail:
                kind = "stub-does-not-compile" if n in sfail_full else "stub-references-values-of-user-packages"
                v.disagree(kind, {"yaml": e["yaml"]}, {"compiler": sfail[n][:5]}, tags=tags)
                continue
            rn, rs = nres.get(n), sres.get(n)
            if rn is None or rs is None or rn[0].get("crashed") is not None or rs[0].get("crashed") is not None or rs[0].get("err") or rn[0].get("err"):
                v.disagree("probe", {"yaml": e["yaml"]}, {"normal": None if rn is None else rn[0].get("stderr", "")[-300:],
                                                           "stub": None if rs is None else (rs[0].get("stderr") or rs[0].get("err") or "")[-300:]})
                continue
            src = e["stub"]["out_data"]
            head = src[:200]
            if "//go:build gontainerstub" not in head:
                v.disagree("stub-build-constraint-missing", {"yaml": e["yaml"]}, {"head": head})
                continue
            nm = {(m["name"], m["in"], m["out"]) for m in rn[0]["res"][0]["methods"]}
            sm = {(m["name"], m["in"], m["out"]) for m in rs[0]["res"][0]["methods"]}
            # the stub has no helper methods (_concatenateChunks, ...): compare the exported surface
            nm = {x for x in nm if not x[0].startswith("_")}
            sm = {x for x in sm if not x[0].startswith("_")}
            if nm != sm:
                v.disagree("api-differs", {"yaml": e["yaml"]}, {"only_normal": sorted(nm - sm), "only_stub": sorted(sm - nm)})
                continue
            if rn[1] != rs[1]:
                v.disagree("package-differs", {"yaml": e["yaml"]}, {"normal": rn[1], "stub": rs[1]})
                continue
            want = names_of(e["cfg"])
            if rs[0]["res"][0].get("type") != want["ctype"]:
                v.disagree("stub-type-name", {"yaml": e["yaml"]}, {"expected": want["ctype"], "got": rs[0]["res"][0].get("type")})
                continue
            ctor = rs[0]["res"][1]
            if "panic" not in ctor:
                v.disagree("stub-constructor-does-not-panic", {"yaml": e["yaml"]}, ctor)
                continue
            calls = rs[0]["res"][2]["calls"]
            notp = sorted(k for k, c in calls.items() if "panic" not in c)
            if notp:
                v.disagree("stub-getter-does-not-panic", {"yaml": e["yaml"]}, {"methods": notp})
                continue
            n_checked += 1
    mk = makefile_workflow(v, wd) if pid == "C17" else None
    shutil.rmtree(wd, ignore_errors=True)
    if not v.violations and (n_acc < 20 or n_checked < 0.5 * len(ok_entries)):
        raise core.InfraError("degenerate exploration: accepted=%d checked=%d of %d" % (n_acc, n_checked, len(ok_entries)))
    rc = v.finish(tier, t0)
    sample = ok_entries[len(ok_entries) // 2]
    if pid == "C01":
        level, rule = "exploration", (
            "configurations are the terminal states TLC enumerates in the listed families (pairwise feature vectors, literal kinds incl. "
            "non-finite floats, API table, tags/decorators over 1-3 files, todo placeholders, import/alias tables); each accepted one is "
            "generated in normal and --stub mode; sensors: gofmt -l, go build (normal output + runtime + fixtures; stub with -tags "
            "gontainerstub), probe start (package initialisation) and constructor call; non-trivial = accepted by the tool (so that "
            "there is output to judge)")
    else:
        level, rule = "exploration", (
            "the same model-generated configurations, each in both modes: equal accept/reject; stub carries the build constraint, builds "
            "with -tags gontainerstub against a types-only copy of the fixture universe, has the same package, type, constructor and "
            "exported method set (reflection) as the normal output, and its constructor and every generated method panic; plus documents "
            "with one malformed or almost-valid piece of Go text in every position that holds one and the grammar defect classes "
            "(equal verdicts only); plus the Makefile targets self-compile / generate-stub run with the tool built from the tree; "
            "non-trivial = accepted in both modes")
    core.write_evidence(pid, tier, level, {
        "evaluations": 2 * len(entries), "distinct_nontrivial": len(ok_entries), "rule": rule,
        "samples": [{"yaml": sample["yaml"], "family": sample["family"]}],
        "states": sum(s["tlc_states"] for s in stats), "transitions": sum(s["tlc_generated"] for s in stats),
        "families": stats, "odd_reference_documents": n_odd, "makefile_workflow": mk, "tool_accepts": n_acc, "tool_rejects": n_rej, "checked_in_both_modes": n_checked,
        "known_findings_hit": {k: n for k, (f, n) in v.known_hit.items()},
    }, time.time() - t0, violations=len(v.violations), assumptions=[
        "the typing judgment is the Go compiler's; the specification decides which configurations must be accepted and what their API is",
        "every Go symbol a configuration names exists in the fixture universe; configured identifiers are distinct legal identifiers",
        "configurations the tool rejects although the model accepts them are C11's business and only counted here"])
    return rc
