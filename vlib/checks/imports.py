"""C14: package references resolve to exactly the package the alias table denotes (Imports.tla)."""
import random
import re
import time

from .. import core
from . import container

UNIVERSE = {"probe.test/fx", "probe.test/fy", "probe.test/p", "probe.test/pq", "probe.test/p/q", "probe.test/x/p",
            "probe.test/we-ird.v2", "probe.test/x/p/p", "a.test/p", "a.test/p/q", "ab.test/p"}


def compile_families(tier):
    """families C01 / C17 compile as well (several user packages, alias tables)"""
    return [("importsq" if tier == "quick" else "imports", "MC_Container.tla",
             "MC_Container_%s.cfg" % ("importsq" if tier == "quick" else "imports"), 3 if tier == "quick" else 2)]


def import_block(src):
    m = re.search(r"(?s)\nimport \((.*?)\n\)", src)
    out = []
    if not m:
        return out
    for line in m.group(1).split("\n"):
        mm = re.match(r'^\s*(?:(\S+)\s+)?"([^"]+)"\s*$', line)
        if mm:
            out.append((mm.group(1) or mm.group(2).split("/")[-1], mm.group(2)))
    return out


def run_c14(tier):
    pid = "C14"
    t0 = time.time()
    rng = random.Random(core.seed())
    v = core.Verdict(pid)
    fam = "importsv" if tier == "quick" else "imports"      # importsq + alias redefined by a later file + quoted alias targets

    def tags_of(c, d):
        return {"aliases": sorted(e["n"] for e in (c.get("aux") or {}).get("table", []))}
    r = core.run_tlc("MC_Container.tla", "MC_Container_%s.cfg" % fam, timeout=3000)
    if r.violation:
        raise core.InfraError("TLC: design-level invariant violated in MC_Container/%s:\n%s" % (fam, r.raw_tail[-2500:]))
    rp = container.Replayer("C14-" + fam, rng)
    for c in r.emitted:
        rp.add_case(c)
    entries = rp.generate()
    # import block: exactly the packages the configuration uses, each once, under distinct local names
    n_blocks = 0
    for e in entries:
        if e["source"] is None:
            # every configuration of the family is valid and names existing packages: rejecting one (e.g. because a local import
            # name built from the path is not an identifier) is this property's business
            aux = e["cases"][0]["aux"]
            v.disagree("valid-reference-rejected", {"yaml": e["yaml"]}, {"exit": e["tool"]["exit"], "errors": core.Report(e["tool"]["stdout"]).errors[:4],
                                                                       "expected_packages": aux["used"]}, tags={"aliases": sorted(x["n"] for x in aux["table"])})
            continue
        aux = e["cases"][0]["aux"]
        blk = import_block(e["source"])
        user = [p for (_, p) in blk if p in UNIVERSE or p.split("/")[0] in ("probe.test", "a.test", "ab.test")]
        names = [n for (n, _) in blk]
        tg = {"aliases": sorted(x["n"] for x in aux["table"])}
        n_blocks += 1
        if sorted(user) != sorted(aux["used"]):
            v.disagree("import-block", {"yaml": e["yaml"]}, {"expected_user_packages": sorted(aux["used"]), "listed": sorted(user)}, tags=tg)
        elif len(set(names)) != len(names):
            v.disagree("import-local-names-collide", {"yaml": e["yaml"]}, {"imports": blk}, tags=tg)
    results = rp.build_and_run(entries)
    n_cases = n_cmp = 0
    for e in entries:
        c = e["cases"][0]
        n_cases += 1
        tg = {"aliases": sorted(x["n"] for x in c["aux"]["table"])}
        if e.get("compile_error"):
            # a reference that resolves to the wrong package usually names a package or symbol that does not exist
            v.disagree("reference-does-not-resolve", {"yaml": e["yaml"]}, {"compiler": e["compile_error"], "expected_packages": c["aux"]["used"]}, tags=tg)
            continue
        res = results.get(e["name"], {}).get(0)
        if res is None:
            continue
        n_cmp += 1
        d = container.compare_case(c, res)
        if d is not None:
            v.disagree(d["what"], {"yaml": e["yaml"], "ops": [h["op"] for h in c["hist"]]}, d, tags=tg)
    import shutil
    shutil.rmtree(rp.wd, ignore_errors=True)
    stats = [{"family": fam, "tlc_states": r.states, "tlc_generated": r.generated, "configurations": len(entries),
              "histories": n_cases, "compared": n_cmp, "nontrivial": sum(1 for e in entries if e["cases"][0]["aux"]["table"]),
              "unobservable": rp.unobservable, "unobservable_examples": rp.examples, "import_blocks_checked": n_blocks,
              "sample": {"yaml": entries[len(entries) // 2]["yaml"], "aux": entries[len(entries) // 2]["cases"][0]["aux"]},
              "tlc_wall_s": round(r.wall, 1)}]
    return container.finish(pid, tier, t0, v, stats, "model_checking",
                            "alias tables (none, each single entry, chosen pairs: aliases that are string prefixes of other aliases, of "
                            "referenced paths, of real first path segments, or named like packages the template imports) x reference forms "
                            "(none, \".\", alias, alias/sub-path, full path; quoted and unquoted) for two independent references used in "
                            "constructor, type, value, !value, decorator and function positions, restricted to references whose package exists "
                            "in the fixture universe; expected package = Imports.Resolve; observed = the self-identifying constant carried by "
                            "what the generated code constructs / reads / calls, plus the import block; non-trivial = non-empty alias table",
                            ["TableWellFormed", "SharedOnce"], container.COMMON_ASSUMPTIONS + [
                                "alias targets are written unquoted (quoted targets in meta.imports are undocumented)"])
