"""Run-time families (C02, C04, C05 run time, C15, ...): TLC explores spec/MC_Container.tla, every state at the
history bound carries a configuration, a history of operations and the results + heap the specification
demands; the configuration is compiled by the tool built from /repo, the generated file is linked with the real
runtime library and the fixture universe, the history is replayed by the probe and results are compared up to
renaming of object identities."""
import json
import os
import random
import shutil
import time

from .. import core, concretise, probe as probemod

ERR_MARK = [
    ("service todo", "service todo"),
    ("NewE fails", "fixture: NewE fails"),
    ("SetE fails", "fixture: SetE fails"),
    ("param does not exist", "param does not exist"),
    ("service does not exist", "service does not exist"),
    ("parameter todo", "parameter todo"),
    ("fn:fnE", "fixture: FnE fails"),
    ("env:VERIF_E1", 'environment variable "VERIF_E1" does not exist'),
    ("env:VERIF_E2", 'environment variable "VERIF_E2" does not exist'),
    ("envint:VERIF_E2", 'cannot cast env("VERIF_E2") to int'),
]


def err_ok(model_err, observed):
    if model_err.startswith("todo:"):
        msg = model_err[len("todo:"):].strip('"')
        return observed.rstrip().endswith(msg)       # the token itself is quoted earlier in the text: the message is what the error ends with
    for k, sub in ERR_MARK:
        if model_err == k:
            return sub in observed
    return True     # classes without a documented text: any error is accepted


def model_value(v):
    k = v["k"]
    if k == "lit":
        return {"k": "lit", "t": v["t"], "v": v["v"]}
    if k == "obj":
        return {"k": "obj", "id": v["id"]}
    if k == "objval":
        return {"k": "objval", "body": model_body(v["body"])}
    if k == "list":
        return {"k": "list", "items": [model_value(x) for x in v["items"]]}
    return {"k": k}


def model_body(b):
    p = b["payload"]
    return {"made": b["made"], "args": [model_value(x) for x in b["args"]],
            "F1": model_value(b["F1"]), "F2": model_value(b["F2"]), "f3": model_value(b["f3"]),
            "prev": model_value(b["prev"]),
            "log": [{"m": e["m"], "args": [model_value(x) for x in e["args"]]} for e in b["log"]],
            "payload": None if not p else {"tag": p[0]["tag"], "id": p[0]["id"], "svc": model_value(p[0]["svc"])}}


def model_heap(heap):
    return {str(i + 1): model_body(b) for i, b in enumerate(heap)}


def op_script(o):
    op = o["op"]
    if op in ("Get", "GetParam"):
        return {"op": op, "id": o["id"]}
    if op == "GetInContext":
        return {"op": op, "id": o["id"], "ctx": o["ctx"]}
    if op == "GetTaggedBy":
        return {"op": op, "tag": o["id"]}
    if op == "GetTaggedByInContext":
        return {"op": op, "tag": o["id"], "ctx": o["ctx"]}
    if op == "SetEnv":
        return {"op": "Env", "set": {o["id"]: o["v"]}}
    if op == "UnsetEnv":
        return {"op": "Env", "unset": [o["id"]]}
    if op == "IsTaggedBy":
        return {"op": op, "id": o["id"], "tag": o["tag"]}
    if op == "CircularDeps":
        return {"op": op}
    if op == "OverrideParam":
        t = {"int": "int", "string": "string", "bool": "bool", "float": "float64", "null": "nil"}[o["kind"]]
        return {"op": op, "id": o["id"], "val": {"t": t, "v": o["v"]}}
    if op == "OverrideService":
        args = []
        for a in o["args"]:
            if a["k"] == "svc":
                args.append({"svc": a["v"]})
            elif a["k"] == "pat":
                args.append({"param": a["ch"][0]["v"]})
            elif a["k"] == "str":
                args.append({"t": "string", "v": a["v"]})
            else:
                args.append({"t": {"int": "int", "bool": "bool"}.get(a["k"], "string"), "v": a["v"]})
        return {"op": op, "id": o["id"], "ctor": o["ctor"].split(".")[-1], "args": args}
    if op in ("Getter", "GetterInContext"):
        return {"op": op, "name": o["id"] + ("InContext" if op.endswith("InContext") else ""), "ctx": o.get("ctx", 0)}
    if op in ("MustGetter", "MustGetterInContext"):
        return {"op": op, "name": "Must" + o["id"] + ("InContext" if op.endswith("InContext") else ""), "ctx": o.get("ctx", 0)}
    raise ValueError(op)


class Replayer:
    """Compiles the configurations of a family and replays their histories."""

    def __init__(self, label, rng, counters=False):
        self.shadow = False          # build a second, younger container before the history is replayed on the first
        self.todo_false = False      # write `todo: false` on some services that are not placeholders (single-file configurations)
        self.counters = counters
        self.label = label
        self.rng = rng
        self.wd = core.subdir("rt-" + label)
        self.cfgs = {}       # key -> dict(cfg, name, cases)
        self.unobservable = {"tool-rejects": 0, "does-not-compile": 0}
        self.examples = {}

    def add_case(self, case):
        files = case.get("files") or [case["cfg"]]
        key = json.dumps(files, sort_keys=True)
        e = self.cfgs.get(key)
        if e is None:
            e = {"cfg": case["cfg"], "files": files, "name": "g%05d" % len(self.cfgs), "cases": []}
            self.cfgs[key] = e
        e["cases"].append(case)

    def generate(self, stub=False):
        """run the tool on every configuration; returns entries with generated source"""
        pool = core.DriverPool()
        entries = list(self.cfgs.values())
        jobs = []
        for i, e in enumerate(entries):
            d = os.path.join(self.wd, "in", e["name"])
            os.makedirs(d, exist_ok=True)
            tf = self.rng if (self.todo_false and len(e["files"]) == 1) else None
            yamls = [concretise.to_yaml(fc, self.rng, todo_false=tf) for fc in e["files"]]
            e["yaml"] = "\n--- next file ---\n".join(yamls)
            ins = []
            for k, y in enumerate(yamls):
                # the order of the -i flags is the merge order, whatever the lexical order of the names (here: the reverse)
                nm = "in0.yaml" if len(yamls) == 1 else "%s%d.yaml" % (chr(ord("z") - k), k)
                with open(os.path.join(d, nm), "w") as f:
                    f.write(y)
                ins += ["-i", nm]
            jobs.append({"id": i, "dir": d, "args": ins + ["-o", "out.go"] + (["--stub"] if stub else []),
                         "version": "dev-main", "buildinfo": "verif", "out": "out.go", "want_out": True})
        try:
            res = pool.run_all(jobs)
        finally:
            pool.close()
        for e, r in zip(entries, res):
            e["tool"] = r
            e["source"] = r.get("out_data") if r["exit"] == 0 else None
            if e["source"] is None:
                self.unobservable["tool-rejects"] += 1
                self.examples.setdefault("tool-rejects", {"yaml": e["yaml"], "errors": core.Report(r["stdout"]).errors[:4], "exit": r["exit"]})
        return entries

    def build_and_run(self, entries, batch=250):
        """returns dict name -> {case index -> probe result}"""
        out = {}
        good_entries = [e for e in entries if e["source"] is not None]
        for bi in range(0, len(good_entries), batch):
            chunk = good_entries[bi:bi + batch]
            pb = probemod.Probe(name="probe-%s-%d" % (self.label, bi))
            for e in chunk:
                meta = e["cfg"]["meta"]
                ctor = meta["cctor"] if meta["cctor"] != "~" else "NewGontainer"
                pb.add(e["name"], e["source"], ctor=ctor)
            good = set(pb.build())
            for n, msg in pb.failed.items():
                self.unobservable["does-not-compile"] += 1
                ent = next(x for x in chunk if x["name"] == n)
                ent["compile_error"] = msg[:6]
                self.examples.setdefault("does-not-compile", {"yaml": ent["yaml"], "errors": msg[:4]})
            scripts = []
            for e in chunk:
                if e["name"] not in good:
                    continue
                for ci, c in enumerate(e["cases"]):
                    ops = [op_script(h["op"]) for h in c["hist"]]
                    if self.counters:
                        ops = [{"op": "Counters"}] + ops + [{"op": "Counters"}]
                    scripts.append({"id": len(scripts), "pkg": e["name"], "ops": ops, "_e": e["name"], "_ci": ci,
                                    "shadow": bool(self.shadow and ci % 2 == 1)})
            res = pb.run([{k: v for k, v in s.items() if not k.startswith("_")} for s in scripts])
            for s in scripts:
                out.setdefault(s["_e"], {})[s["_ci"]] = res[s["id"]]
            shutil.rmtree(pb.dir, ignore_errors=True)
        return out


def compare_case(case, res):
    """returns None if the observed run agrees with the specification, else a dict describing the first difference"""
    if res.get("crashed") is not None or res.get("timeout"):
        return {"what": "probe crashed or timed out", "res": {k: res.get(k) for k in ("crashed", "timeout", "stderr")}}
    if res.get("err"):
        return {"what": "container constructor", "err": res["err"]}
    hist = case["hist"]
    obs = res["res"]
    if obs and "counters" in obs[0] and len(obs) == len(hist) + 2:
        first, last = obs[0]["counters"], obs[-1]["counters"]
        obs = obs[1:-1]
        fn0 = {k: n for k, n in first.items() if k.startswith("fn:")}
        if fn0:
            return {"what": "parameter function invoked before first use", "counters_after_New": fn0}
        want = {k: n for k, n in (case.get("cnt") or {}).items() if k.startswith("fn:")} if isinstance(case.get("cnt"), dict) else {}
        got = {k: n for k, n in last.items() if k.startswith("fn:")}
        if want != got:
            return {"what": "parameter function invocation counts", "model": want, "observed": got}
    if len(obs) != len(hist):
        return {"what": "result count", "got": len(obs), "want": len(hist)}
    mterms, oterms = [], []
    for i, (h, o) in enumerate(zip(hist, obs)):
        must = h["op"]["op"].startswith("Must")
        if "panic" in o:
            if must and not h["ok"]:
                continue                     # Must* getters panic exactly when the getter errs
            return {"what": "panic", "op": h["op"], "index": i, "panic": o["panic"][:300]}
        if "nomethod" in o:
            return {"what": "method missing", "op": h["op"], "index": i}
        if must and not h["ok"]:
            return {"what": "must-getter does not panic on error", "op": h["op"], "index": i, "observed": o}
        if h["ok"] != ("ok" in o):
            return {"what": "ok/error mismatch", "op": h["op"], "index": i, "model": {"ok": h["ok"], "err": h["err"]},
                    "observed": o.get("err", "ok")[:300] if isinstance(o.get("err", "ok"), str) else "ok"}
        if not h["ok"]:
            if not err_ok(h["err"], o.get("err", "")):
                return {"what": "error text", "op": h["op"], "index": i, "model": h["err"], "observed": o.get("err", "")[:300]}
            continue
        mterms.append(model_value(h["v"]))
        oterms.append(o["ok"])
    mt, mb = probemod.canon(mterms, model_heap(case["heap"]))
    ot, ob = probemod.canon(oterms, res.get("heap") or {})
    if mt != ot:
        for i, (a, b) in enumerate(zip(mt, ot)):
            if a != b:
                return {"what": "result value / identity", "ok_result_index": i, "model": a, "observed": b}
    if mb != ob:
        for i, (a, b) in enumerate(zip(mb, ob)):
            if a != b:
                diff = {k: {"model": a.get(k), "observed": b.get(k)} for k in a if a.get(k) != b.get(k)}
                return {"what": "object #%d differs" % (i + 1), "diff": diff}
        return {"what": "heap size", "model": len(mb), "observed": len(ob)}
    return None


def run_ext(pid, tier, v, rng, n=None):
    """larger seeded random configurations and histories (vlib/randcfg.py), judged by Container.tla through family ext"""
    from .. import randcfg
    n = n or (60 if tier == "quick" else 800)
    cases = []
    for _ in range(n):
        cfg = randcfg.runtime_cfg(rng)
        cases.append({"cfg": cfg, "ops": randcfg.runtime_ops(rng, cfg)})
    return run_family(pid, tier, "ext", "MC_Container_ext.cfg", v, rng, timeout=3000,
                      extra_files={"ext_cases.ndjson": "\n".join(json.dumps(c) for c in cases) + "\n"})


def run_family(pid, tier, family, cfgname, v, rng, nontrivial=None, timeout=1500, tags_of=None, counters=False, extra_files=None,
               rejected_is_violation=False):
    """generic R2 loop for one MC_Container family; returns stats"""
    r = core.run_tlc("MC_Container.tla", cfgname, timeout=timeout, extra_files=extra_files)
    if r.violation:
        raise core.InfraError("TLC: design-level invariant violated in MC_Container/%s:\n%s" % (family, r.raw_tail[-2500:]))
    rp = Replayer("%s-%s" % (pid, family), rng, counters=counters)
    rp.shadow = rp.todo_false = (pid == "C15")
    if pid == "C04":
        concretise.vary_separators(rng)
    for c in r.emitted:
        rp.add_case(c)
    try:
        entries = rp.generate()
    finally:
        concretise.vary_separators(None)
    if rejected_is_violation:
        # the family's configurations are valid by the specification and the property itself says so (todo counts as declared)
        for e in entries:
            if e["source"] is None:
                v.disagree("valid-configuration-rejected", {"yaml": e["yaml"]}, {"exit": e["tool"]["exit"], "errors": core.Report(e["tool"]["stdout"]).errors[:4]})
    results = rp.build_and_run(entries)
    n_cases = n_nt = n_cmp = 0
    for e in entries:
        for ci, c in enumerate(e["cases"]):
            n_cases += 1
            if nontrivial is None or nontrivial(c):
                n_nt += 1
            res = results.get(e["name"], {}).get(ci)
            if res is None:
                continue
            n_cmp += 1
            d = compare_case(c, res)
            if d is not None:
                v.disagree(d["what"], {"yaml": e["yaml"], "ops": [h["op"] for h in c["hist"]]}, d,
                           tags=(tags_of(c, d) if tags_of else None))
    shutil.rmtree(rp.wd, ignore_errors=True)
    sample = entries[len(entries) // 2]
    return {"family": family, "tlc_states": r.states, "tlc_generated": r.generated, "configurations": len(entries),
            "histories": n_cases, "compared": n_cmp, "nontrivial": n_nt, "unobservable": rp.unobservable,
            "unobservable_examples": rp.examples,
            "sample": {"yaml": sample["yaml"], "ops": [h["op"] for h in sample["cases"][0]["hist"]],
                       "expected": [{"ok": h["ok"], "v": h["v"], "err": h["err"]} for h in sample["cases"][0]["hist"]]},
            "tlc_wall_s": round(r.wall, 1)}


def finish(pid, tier, t0, v, stats, level, rule, invariants, assumptions):
    cmp_total = sum(s["compared"] for s in stats)
    cases = sum(s["histories"] for s in stats)
    if not v.violations and (cmp_total == 0 or cmp_total < 0.5 * cases):
        raise core.InfraError("degenerate exploration: only %d of %d histories could be observed (%s)" %
                              (cmp_total, cases, [s["unobservable"] for s in stats]))
    rc = v.finish(tier, t0)
    core.write_evidence(pid, tier, level, {
        "states": sum(s["tlc_states"] for s in stats), "transitions": sum(s["tlc_generated"] for s in stats),
        "traces_validated_against_impl": cmp_total,
        "samples": [s["sample"] for s in stats][:3],
        "evaluations": cases, "distinct_nontrivial": sum(s["nontrivial"] for s in stats),
        "rule": rule, "exhaustive": True,
        "families": [{k: s[k] for k in s if k != "sample"} for s in stats],
        "design_invariants_checked_by_tlc": invariants,
        "known_findings_hit": {k: n for k, (f, n) in v.known_hit.items()},
    }, time.time() - t0, violations=len(v.violations), assumptions=assumptions)
    return rc


COMMON_ASSUMPTIONS = [
    "TLC, the concretiser, the probe and the fixture universe are trusted; object identities are compared up to renaming",
    "a configuration the tool rejects or whose output does not compile is unobservable here (counted, attributed to C11/C01)",
    "error texts are matched only where the documentation fixes them (service todo, parameter todo, does not exist, fixture errors)",
]


def run_c02(tier):
    pid = "C02"
    t0 = time.time()
    rng = random.Random(core.seed())
    v = core.Verdict(pid)
    stats = [run_family(pid, tier, "build", "MC_Container_build.cfg", v, rng),
             run_family(pid, tier, "forms", "MC_Container_forms.cfg", v, rng),
             run_family(pid, tier, "lits", "MC_Container_lits.cfg", v, rng),
             run_ext(pid, tier, v, rng)]
    return finish(pid, tier, t0, v, stats, "model_checking",
                  "TLC enumerates every choice vector that differs from the base service in at most two of the dimensions "
                  "creation method x first argument form x second argument form x fields x calls/withers x scope x decorators x getter "
                  "(pairwise coverage), applies the fixed script Get, GetInContext(1), Get, GetInContext(1), GetInContext(2), GetTaggedBy; "
                  "each history is replayed on the compiled container; plus family forms (every documented syntax form of constructor / value / "
                  "type, built-in functions as arguments, with and without a parameters section) and family lits (every literal type incl. "
                  "non-finite floats in every argument position); all are non-trivial (every one builds an object graph)",
                  ["SharedOnce", "ContextIsolation", "SharedNeverHoldsContextual"], COMMON_ASSUMPTIONS)


def run_c05_runtime(tier, v, rng):
    fam = "scope2" if tier == "quick" else "scope3"
    out = [run_family("C05", tier, fam, "MC_Container_%s.cfg" % fam, v, rng, timeout=3000)]
    # the same graphs reached through generated getters, and with every service re-opened by a second file
    for f2 in ("scopeg", "scope2m"):
        out.append(run_family("C05", tier, f2, "MC_Container_%s%s.cfg" % (f2, "" if tier == "quick" else "3"), v, rng, timeout=3000))
    return out


def run_c04(tier):
    pid = "C04"
    t0 = time.time()
    rng = random.Random(core.seed())
    v = core.Verdict(pid)
    fam = "tagsq" if tier == "quick" else "tags"
    stats = [run_family(pid, tier, fam, "MC_Container_%s.cfg" % fam, v, rng, timeout=3000,
                        nontrivial=lambda c: len(c["cfg"]["decorators"]) > 0 or len(c.get("files") or []) > 1),
             run_ext(pid, tier, v, rng)]
    return finish(pid, tier, t0, v, stats, "model_checking",
                  "TLC enumerates three tagged services with every assignment of priorities from the family's set (absent, negative, "
                  "equal, large) and carry bits for a second tag, a consumer of `!tagged t1` and `!tagged t2`, eight decorator sequences "
                  "(declaration order vs tag order, same function twice, decorator arguments of every form, a decorator depending on "
                  "another tag) and the configuration spread over 1, 2 or 3 files (tags and decorators appended in file order); script: "
                  "GetTaggedBy(t1), GetTaggedBy(t2), Get(consumer), Get(s1), GetTaggedBy(t1); non-trivial = has decorators or several files",
                  ["TaggedSorted", "SplitInvariant", "SharedOnce"], COMMON_ASSUMPTIONS)


def run_c15(tier):
    pid = "C15"
    t0 = time.time()
    rng = random.Random(core.seed())
    v = core.Verdict(pid)
    fam = "todo" if tier == "quick" else "todo4"
    sfx = "" if tier == "quick" else "4"
    nt = lambda c: any(h["op"]["op"].startswith("Override") for h in c["hist"]) or any(not h["ok"] for h in c["hist"])      # noqa: E731
    stats = [run_family(pid, tier, fam, "MC_Container_%s.cfg" % fam, v, rng, timeout=3000, counters=True, nontrivial=nt, rejected_is_violation=True),
             run_family(pid, tier, "todom", "MC_Container_todom%s.cfg" % sfx, v, rng, timeout=3000, counters=True, nontrivial=nt, rejected_is_violation=True),
             run_family(pid, tier, "lazy", "MC_Container_lazy%s.cfg" % sfx, v, rng, timeout=3000, counters=True,
                        nontrivial=lambda c: any(h["op"]["op"] in ("SetEnv", "UnsetEnv") for h in c["hist"]), rejected_is_violation=True)]
    return finish(pid, tier, t0, v, stats, "model_checking",
                  "family lazy: parameters backed by env / envInt (with and without defaults, alone, in a multi-chunk pattern, as direct "
                  "arguments) x every history of that length over {SetEnv, UnsetEnv, GetParam, Get, OverrideParam}: the environment is read "
                  "at first use, failures are not cached; family todom: the todo configurations with every service re-opened by a second "
                  "file; family todo: "
                  "every subset of {p1, p2, s1, s2} marked todo (16 configurations) x every history of length %d over "
                  "{GetParam p1/p2, Get s1/s2, OverrideParam p1/p2, OverrideService s1/s2}; results, errors (documented texts), object "
                  "graphs and the invocation counters of the parameter function (zero right after the constructor) are compared; "
                  "non-trivial = the history contains an override or a failing operation" % (3 if tier == "quick" else 4),
                  ["TodoFails", "LazyParams", "SharedOnce", "NotCachedOnFailure"], COMMON_ASSUMPTIONS)


BASE_API = {"Get", "GetInContext", "CircularDeps", "OverrideService", "AddDecorator", "IsTaggedBy", "GetTaggedBy",
            "GetTaggedByInContext", "GetParam", "OverrideParam", "HotSwap", "Root"}


def run_c13(tier):
    pid = "C13"
    t0 = time.time()
    rng = random.Random(core.seed())
    v = core.Verdict(pid)
    fam = "apiq" if tier == "quick" else "api"
    r = core.run_tlc("MC_Container.tla", "MC_Container_%s.cfg" % fam, timeout=3000)
    if r.violation:
        raise core.InfraError("TLC: design-level invariant violated in MC_Container/%s:\n%s" % (fam, r.raw_tail[-2500:]))
    rp = Replayer("C13-" + fam, rng)
    for c in r.emitted:
        rp.add_case(c)
    entries = rp.generate()
    n_rej = n_acc = 0
    for e in entries:
        api = e["cases"][0]["api"]
        tool_ok = e["tool"]["exit"] == 0
        if e["tool"]["exit"] not in (0, 1):
            v.disagree("abnormal-exit", {"yaml": e["yaml"]}, {"exit": e["tool"]["exit"], "panic": e["tool"].get("panic", "")[:400]})
            e["source"] = None
            continue
        if api["accept"]:
            n_acc += 1
        else:
            n_rej += 1
            if tool_ok:
                viol = sorted(x[1] for x in api["violations"])
                v.disagree("colliding-or-illegal-getter-accepted", {"yaml": e["yaml"]}, {"model_violations": api["violations"]},
                           tags={"classes": viol})
            else:
                # every offending service is named
                errs = core.Report(e["tool"]["stdout"]).errors
                for svc, cls in api["violations"]:
                    if not any(core.mentions(x, svc) for x in errs):
                        v.disagree("getter-violation-not-named", {"yaml": e["yaml"]}, {"service": svc, "class": cls, "errors": errs[:5]})
                        break
            e["source"] = None            # nothing to compile
    # tool rejections of configurations the model accepts stay unobservable (C11's business)
    results = {}
    accepted = [e for e in entries if e["source"] is not None]
    for e in accepted:
        e["cases"][0]["hist_extra"] = True
    # Methods op in front of every script
    rp.counters = False
    out = {}
    good_entries = accepted
    import shutil as _sh
    for bi in range(0, len(good_entries), 250):
        chunk = good_entries[bi:bi + 250]
        pb = probemod.Probe(name="probe-C13-%d" % bi)
        for e in chunk:
            pb.add(e["name"], e["source"], ctor=e["cases"][0]["api"]["names"]["cctor"])
        good = set(pb.build())
        for n, msg in pb.failed.items():
            ent = next(x for x in chunk if x["name"] == n)
            rp.unobservable["does-not-compile"] += 1
            # a wrong constructor name or colliding methods show up here: decide which
            txt = "\n".join(msg)
            if "undefined: %s" % ent["cases"][0]["api"]["names"]["cctor"] in txt:
                v.disagree("constructor-name", {"yaml": ent["yaml"]}, {"expected": ent["cases"][0]["api"]["names"], "compiler": msg[:4]})
            elif "already declared" in txt or "field and method with the same name" in txt or "duplicate method" in txt:
                v.disagree("method-collision", {"yaml": ent["yaml"]}, {"compiler": msg[:4]})
        scripts = []
        for e in chunk:
            if e["name"] not in good:
                continue
            c = e["cases"][0]
            scripts.append({"id": len(scripts), "pkg": e["name"], "ops": [{"op": "Methods"}] + [op_script(h["op"]) for h in c["hist"]], "_e": e})
        res = pb.run([{k: x for k, x in s.items() if k != "_e"} for s in scripts])
        for s in scripts:
            out[s["_e"]["name"]] = (s["_e"], res[s["id"]], pb.pkgs[s["_e"]["name"]]["declared_pkg"])
        _sh.rmtree(pb.dir, ignore_errors=True)
    n_cmp = 0
    for name, (e, res, declared_pkg) in out.items():
        c = e["cases"][0]
        api = c["api"]
        if res.get("crashed") is not None or res.get("timeout") or res.get("err"):
            v.disagree("probe", {"yaml": e["yaml"]}, {"res": {k: res.get(k) for k in ("crashed", "timeout", "err", "stderr")}})
            continue
        n_cmp += 1
        ms = res["res"][0].get("methods") or []
        got = {(m["name"], m["in"], m["out"]) for m in ms if m["name"] not in BASE_API and not m["name"].startswith("_")}
        want = {(m["name"], m["in"], m["out"]) for m in api["methods"]}
        missing_base = BASE_API - {m["name"] for m in ms}
        if missing_base:
            v.disagree("container-api-missing", {"yaml": e["yaml"]}, {"missing": sorted(missing_base)})
            continue
        if got != want:
            v.disagree("getter-method-set", {"yaml": e["yaml"]}, {"missing": sorted(want - got), "unexpected": sorted(got - want)},
                       tags={"missing": len(want - got), "unexpected": len(got - want)})
            continue
        if declared_pkg != api["names"]["pkg"]:
            v.disagree("package-name", {"yaml": e["yaml"]}, {"expected": api["names"]["pkg"], "got": declared_pkg})
            continue
        src_type = "type %s struct" % api["names"]["ctype"]
        if src_type not in e["source"]:
            v.disagree("container-type-name", {"yaml": e["yaml"]}, {"expected": api["names"]["ctype"]})
            continue
        res2 = dict(res)
        res2["res"] = res["res"][1:]
        d = compare_case(c, res2)
        if d is not None:
            v.disagree(d["what"], {"yaml": e["yaml"], "ops": [h["op"] for h in c["hist"]]}, d)
    _sh.rmtree(rp.wd, ignore_errors=True)
    if n_acc == 0 or n_rej == 0 or n_cmp < 0.5 * n_acc:
        raise core.InfraError("degenerate exploration: accept=%d reject=%d compared=%d (%s)" % (n_acc, n_rej, n_cmp, rp.unobservable))
    rc = v.finish(tier, t0)
    sample = accepted[len(accepted) // 2]
    core.write_evidence(pid, tier, "model_checking", {
        "states": r.states, "transitions": r.generated, "traces_validated_against_impl": n_cmp,
        "samples": [{"yaml": sample["yaml"], "expected_api": sample["cases"][0]["api"], "ops": [h["op"] for h in sample["cases"][0]["hist"]]}],
        "evaluations": len(entries), "distinct_nontrivial": n_rej + sum(1 for e in accepted if e["cases"][0]["api"]["methods"]),
        "rule": "TLC enumerates getter x type form x must_getter x default_must_getter x meta names x role of a second service "
                "(own getter, same getter, todo with a getter, failing constructor with a must-getter); the verdict and, for accepted "
                "configurations, the reflected method set with signatures, package / type / constructor names, and the results of calling "
                "every generated method (identity with Get, must-getters panic exactly on error) are compared with API.tla / Container.tla; "
                "non-trivial = rejected by the model or with at least one getter",
        "exhaustive": True, "model_accepts": n_acc, "model_rejects": n_rej, "unobservable": rp.unobservable,
        "design_invariants_checked_by_tlc": ["ApiNoCollision", "SharedOnce"],
        "known_findings_hit": {k: n for k, (f, n) in v.known_hit.items()},
    }, time.time() - t0, violations=len(v.violations), assumptions=COMMON_ASSUMPTIONS + [
        "what a getter written on a todo service produces is not determined by the properties (the code ignores it) and is not compared"])
    return rc
