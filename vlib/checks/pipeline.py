"""C10: exit status, diagnostics and output-file contract.

R1  TLC explores spec/Pipeline.tla over families of scenarios (MC_Pipeline) and checks ExitIff, Untouched,
    CountMatch, OneFailLast, InOrder, WriteLast on every state.
R2  every terminated state is a scenario + the outcome the specification demands; the scenario is realised in a
    private directory (input files, flags, state of the -o path), the command built from /repo is run in-process
    (a sample also as a real process) and exit status, failing step, rule statuses and the before/after snapshot
    of the whole directory are compared.
R3  every run's own progress report is parsed into step events and, together with exit status and file effect,
    validated by TLC against Trace_Pipeline (all runs concatenated).
"""
import json
import os
import random
import shutil
import subprocess
import time

from .. import core

BASE = """\
parameters:
  p1: 5
  p2: "%p1%-x"
services:
  s1: {constructor: NewA, arguments: ["@s2", "%p2%"]}
  s2: {constructor: NewB}
  s3: {constructor: NewC}
"""

SECOND = """\
services:
  s4: {constructor: NewD, arguments: ["@s1"]}
"""

DEFECT_YAML = {
    "grammar": 'services:\n  "bad name": {constructor: NewZ}\n',
    "version": 'version: "2.0.0"\n',
    "token": 'parameters:\n  p3: "50%"\n',
    "scope": 'services:\n  s1: {scope: shared}\n  s2: {scope: contextual}\n',
    "cycle": 'services:\n  s3: {arguments: ["@s3"]}\n',
    "missP": 'services:\n  s2: {arguments: ["%nope%"]}\n',
    "missS": 'services:\n  s2: {fields: {F: "@nope"}}\n',
    "fmt": 'parameters:\n  p4: \'%env(()%\'\n',
}

OLD_CONTENT = "// previous content of the output file\n" + "// filler\n" * 4000


def realise(sc, d):
    """Create the sandbox for scenario sc in directory d; returns (args, outpath)."""
    os.makedirs(d)
    pats = []
    first_good = None
    defect_files = []
    for i, o in enumerate(sc["pats"]):
        k = i + 1
        if o == "nomatch":
            pats.append("none_%d_*.yaml" % k)
        elif o == "badglob":
            pats.append("[")
        elif o == "good1":
            fn = "a_%d.yaml" % k
            open(os.path.join(d, fn), "w").write(BASE if first_good is None else SECOND.replace("s4", "s%d" % (4 + k)))
            pats.append(fn)
            if first_good is None:
                first_good = fn
        elif o == "good2":
            f1, f2 = "b_%d_10.yaml" % k, "b_%d_9.yaml" % k
            open(os.path.join(d, f1), "w").write(BASE if first_good is None else SECOND.replace("s4", "s%d" % (4 + k)))
            open(os.path.join(d, f2), "w").write(SECOND.replace("s4", "s%d" % (6 + k)))
            pats.append("b_%d_*.yaml" % k)
            if first_good is None:
                first_good = f1
        elif o == "dir":
            os.makedirs(os.path.join(d, "d_%d.yaml" % k))
            pats.append("d_%d.yaml" % k)
        elif o == "badyaml":
            open(os.path.join(d, "y_%d.yaml" % k), "w").write("services: [\n")
            pats.append("y_%d.yaml" % k)
        elif o == "wrongkind":
            open(os.path.join(d, "w_%d.yaml" % k), "w").write("services: 5\n")
            pats.append("w_%d.yaml" % k)
        elif o == "same":
            # the file the previous pattern matched, spelled differently
            prev = sc["pats"][i - 1]
            pats.append("./a_%d.yaml" % i if prev == "good1" else "sub/../b_%d_10.yaml" % i)
            if prev == "good2":
                os.makedirs(os.path.join(d, "sub"), exist_ok=True)
        else:
            raise ValueError(o)
    # defects go into extra files matched by an extra, last pattern (merge adds them to the configuration)
    if sc["defects"] and first_good is not None:
        for j, df in enumerate(sorted(sc["defects"])):
            open(os.path.join(d, "z_defect_%d.yaml" % j), "w").write(DEFECT_YAML[df])
    args = []
    for p in pats:
        args += ["-i", p]
    if sc["defects"] and first_good is not None:
        args += ["-i", "z_defect_*.yaml"]
    op = sc["outpre"]
    if op == "absent":
        os.makedirs(os.path.join(d, "out"))
        outp = "out/gen.go"
    elif op == "file":
        os.makedirs(os.path.join(d, "out"))
        outp = "out/gen.go"
        open(os.path.join(d, outp), "w").write(OLD_CONTENT)
    elif op == "missingdir":
        outp = "nodir/gen.go"
    elif op == "isdir":
        os.makedirs(os.path.join(d, "out/gen.go"))
        outp = "out/gen.go"
    elif op == "underfile":
        open(os.path.join(d, "afile"), "w").write("regular\n")
        outp = "afile/gen.go"
    args += ["-o", outp]
    if sc["quiet"]:
        args.append("--quiet")
    if sc["stub"]:
        args.append("--stub")
    if sc["ignoreP"]:
        args.append("--ignore-missing-params")
    if sc["ignoreS"]:
        args.append("--ignore-missing-services")
    return args, outp


def snapshot(d):
    snap = {}
    for root, dirs, files in os.walk(d):
        for n in dirs:
            snap[os.path.relpath(os.path.join(root, n), d) + "/"] = "dir"
        for n in files:
            p = os.path.join(root, n)
            with open(p, "rb") as f:
                snap[os.path.relpath(p, d)] = core.sha(f.read())
    return snap


def events_of(sc, res, outstate):
    rep = core.Report(res["stdout"])
    ev = [{"ev": "run", "sc": dict(sc, free=sc.get("free", False))}]
    for s in rep.steps:
        ev.append({"ev": "step", "n": s["name"], "d": s["depth"], "st": s["status"], "c": s["count"]})
    if rep.has_errors_header:
        ev.append({"ev": "errors", "n": len(rep.errors)})
    ev.append({"ev": "exit", "code": res["exit"], "printed": res["stdout"] != ""})
    ev.append({"ev": "out", "st": outstate})
    return ev


def validate_traces(traces, label="pipeline"):
    """traces: list of event lists. Returns (accepted_all, index_of_first_rejected_trace or None)."""
    lines, starts = [], []
    for t in traces:
        starts.append(len(lines) + 1)
        lines += [json.dumps(e) for e in t]
    r = core.run_tlc("Trace_Pipeline.tla", "Trace_Pipeline.cfg", workers=1, timeout=1800,
                     extra_files={"trace.ndjson": "\n".join(lines) + "\n"}, want_emits=False)
    core.check_tlc_error(r, "validating pipeline traces")
    hw = None
    for ln in r.raw_tail.split("\n"):
        if ln.startswith('<<"HW"'):
            parts = ln.strip("<>").split(",")
            hw = int(parts[1])
    if r.violation and "Invariant" in (r.violation or ""):
        # an invariant of Pipeline is violated by an observed run: find the trace
        pass
    if hw is None:
        raise core.InfraError("trace validation produced no high-water mark:\n" + r.raw_tail[-6000:])
    if hw == len(lines) + 1 and not r.violation:
        return True, None, r
    # first trace whose last line was not consumed
    bad = 0
    for i, s in enumerate(starts):
        if s <= hw:
            bad = i
    return False, bad, r


def prove_contract():
    """TLAPS: Contract (=> ExitIff, Untouched, WriteLast) is an inductive invariant of Pipeline for every scenario and bound"""
    import re
    import tempfile
    d = tempfile.mkdtemp(prefix="tlaps-", dir=core.scratch())
    for f in ("Pipeline.tla", "PipelineProofs.tla"):
        shutil.copy(os.path.join(core.SPEC, f), d)
    p = core.sh(["tlapm", "--threads", str(min(8, core.NCPU)), "PipelineProofs.tla"], cwd=d, check=False, timeout=900, env=dict(os.environ))
    m = re.search(r"All (\d+) obligations? proved", p.stdout)
    if not m:
        raise core.InfraError("TLAPS could not discharge the proof of the pipeline contract:\n" + p.stdout[-2000:])
    return int(m.group(1))


def run_c10(tier):
    pid = "C10"
    t0 = time.time()
    rng = random.Random(core.seed())
    v = core.Verdict(pid)
    obligations = prove_contract()
    r = core.run_tlc("MC_Pipeline.tla", "MC_Pipeline_%s.cfg" % tier, timeout=1500)
    if r.violation:
        raise core.InfraError("TLC: design-level invariant violated in MC_Pipeline:\n" + r.raw_tail[-2000:])
    cases = r.emitted
    wd = core.subdir("c10")
    jobs, metas = [], []
    for i, c in enumerate(cases):
        sc = c["sc"]
        d = os.path.join(wd, "s%06d" % i)
        args, outp = realise(sc, d)
        pre = snapshot(d)
        metas.append({"dir": d, "args": args, "out": outp, "pre": pre})
        jobs.append({"id": i, "dir": d, "args": args, "version": "1.2.3", "buildinfo": "verif c10", "out": outp})
    pool = core.DriverPool()
    try:
        results = pool.run_all(jobs)
    finally:
        pool.close()
    traces = []
    n_fail = n_ok = 0
    success_sha = {}
    classes = set()
    for c, m, res in zip(cases, metas, results):
        sc, exp = c["sc"], c["exp"]
        post = snapshot(m["dir"])
        changed = sorted(k for k in set(m["pre"]) | set(post) if m["pre"].get(k) != post.get(k))
        if res["exit"] not in (0, 1):
            v.disagree("abnormal-exit", c, {"exit": res["exit"], "panic": res.get("panic", "")[:600], "args": m["args"]})
            continue
        if exp["exit"] == 0:
            n_ok += 1
        else:
            n_fail += 1
        classes.add((exp["failing"], sc["outpre"]))
        # file effect
        if res["exit"] == 0:
            outstate = "new" if changed == [m["out"]] and post.get(m["out"]) not in (None, "dir") else "other"
        else:
            outstate = "pre" if not changed else "other"
        traces.append(events_of(sc, res, outstate))
        rep = core.Report(res["stdout"])
        got = {"exit": res["exit"], "failing": (rep.failing_top() or {}).get("name", "none") if not sc["quiet"] else None,
               "out": outstate, "changed": changed}
        if res["exit"] != exp["exit"]:
            v.disagree("exit-status", c, {"expected": exp, "got": got, "args": m["args"], "errors": rep.errors[:5]})
            continue
        if outstate != exp["out"]:
            v.disagree("file-effect", c, {"expected": exp, "got": got, "args": m["args"]})
            continue
        if not sc["quiet"]:
            if got["failing"] != exp["failing"]:
                v.disagree("failing-step", c, {"expected": exp, "got": got, "args": m["args"], "errors": rep.errors[:5]})
                continue
            if res["exit"] == 1:
                ft = rep.failing_top()
                if not rep.has_errors_header or len(rep.errors) != ft["count"] or ft["count"] < 1:
                    v.disagree("error-list-length", c, {"reported": ft, "listed": len(rep.errors), "args": m["args"]})
                    continue
            rules = [s["status"] for s in rep.steps if s["depth"] == 1]
            if rules != exp["rules"]:
                v.disagree("rule-statuses", c, {"expected": exp["rules"], "got": rules, "args": m["args"]})
                continue
        else:
            if res["stdout"] != "" or res["stderr"] != "":
                v.disagree("quiet-prints", c, {"stdout": res["stdout"][:300], "stderr": res["stderr"][:300]})
                continue
        if res["exit"] == 0:
            # complete: byte-identical to what the same input yields on any other state of the -o path
            key = json.dumps({k: sc[k] for k in sc if k not in ("outpre", "quiet")}, sort_keys=True)
            sha = post.get(m["out"])
            if key in success_sha and success_sha[key][0] != sha:
                v.disagree("output-not-complete", c, {"sha": sha, "other": success_sha[key], "args": m["args"]})
                continue
            success_sha.setdefault(key, (sha, sc["outpre"]))
            with open(os.path.join(m["dir"], m["out"]), "rb") as f:
                data = f.read()
            if not data.rstrip().endswith(b"}") or b"package " not in data[:400] or b"previous content" in data:
                v.disagree("output-not-complete", c, {"head": data[:120].decode("utf8", "replace"), "tail": data[-120:].decode("utf8", "replace")})
                continue
    # R3: validate every recorded run against Trace_Pipeline
    ok, bad, tr = validate_traces(traces)
    if not ok:
        t = traces[bad]
        v.disagree("trace-rejected", {"sc": t[0]["sc"]}, {"trace": t, "tlc": (tr.violation or "")[:300]})
    # a sample as real processes: the exit status of the binary itself
    tool = core.build_tool("1.2.3")
    sample = rng.sample(range(len(cases)), min(len(cases), 60 if tier == "quick" else 300))
    n_proc = 0
    for i in sample:
        c, m = cases[i], metas[i]
        d2 = m["dir"] + "_p"
        realise(c["sc"], d2)
        p = subprocess.run([tool, "build"] + m["args"], cwd=d2, stdout=subprocess.PIPE, stderr=subprocess.PIPE, timeout=60)
        n_proc += 1
        if p.returncode != c["exp"]["exit"]:
            v.disagree("process-exit-status", c, {"expected": c["exp"]["exit"], "got": p.returncode, "args": m["args"],
                                                  "stderr": p.stderr.decode("utf8", "replace")[-400:]})
        if c["sc"]["quiet"] and (p.stdout or p.stderr):
            v.disagree("quiet-prints", c, {"stdout": p.stdout[:200].decode("utf8", "replace")})
    # hand-made volume / repetition / device scenarios, in-process and as real processes: each recorded run must be a behaviour
    # of Pipeline.tla (free environment: the specification does not say which step fails, only what a failing run looks like)
    extra = []
    for n in (1, 2, 255, 256, 257, 512):
        extra.append(("errors-%d" % n, "services:\n" + "".join("  s%d: {constructor: NewA, arguments: [\"@nope%d\"]}\n" % (i, i) for i in range(n)), [], "out.go"))
        extra.append(("param-errors-%d" % n, "parameters:\n" + "".join("  p%d: \"%%nope%d%%\"\n" % (i, i) for i in range(n)), [], "out.go"))
    extra.append(("same-text-twice", "services:\n  s: {constructor: NewA, arguments: [\"%nope%\", \"%nope%\", \"@gone\", \"@gone\"], fields: {A: \"%nope%\", B: \"@gone\"}}\n", [], "out.go"))
    extra.append(("same-broken-file-twice", "services: [\n", ["-i", "in.yaml", "-i", "./in.yaml"], "out.go"))
    extra.append(("same-invalid-file-twice", "services: {s: {constructor: \"not a constructor\"}}\n", ["-i", "in.yaml", "-i", "*.yaml"], "out.go"))
    if os.path.exists("/dev/full"):
        for fl in ([], ["--stub"]):
            extra.append(("device-full" + "".join(fl), BASE, fl, "/dev/full"))
            extra.append(("device-full-big" + "".join(fl), BASE + "parameters:\n" + "".join("  q%d: %d\n" % (i, i) for i in range(400)), fl, "/dev/full"))
    # configurations of other families (every grammar defect class alone and in pairs, random dependency graphs with cycles, dangling
    # references and scope violations under every flag combination): whatever the tool decides, the run must obey the protocol
    from .. import concretise, randcfg
    from . import grammar
    import itertools
    kinds = sorted(grammar.DEFECTS)
    subsets = [(k,) for k in kinds] + rng.sample(list(itertools.combinations(kinds, 2)), 30 if tier == "quick" else 150)
    for sub in subsets:
        doc = grammar.base_doc()
        for k in sub:
            grammar.DEFECTS[k][0](doc)
        extra.append(("grammar-" + "+".join(sub), concretise.emit(doc, rng) + "\n", [], "out.go"))
    for k in range(40 if tier == "quick" else 400):
        fl = [f for f in ("--ignore-missing-params", "--ignore-missing-services", "--stub") if rng.random() < 0.3]
        extra.append(("random-graph", concretise.to_yaml(randcfg.deps_cfg(rng), rng), fl, "out.go"))
    xjobs = []
    for i, (label, y, xargs, outp) in enumerate(extra):
        for mode in ("drv", "proc"):
            d = os.path.join(wd, "x-%s-%03d" % (mode, i))
            os.makedirs(d)
            with open(os.path.join(d, "in.yaml"), "w") as f:
                f.write(y)
            if outp == "out.go":
                with open(os.path.join(d, outp), "w") as f:
                    f.write("// previous content\n")
        args = (xargs if "-i" in xargs else ["-i", "in.yaml"] + xargs) + ["-o", outp]
        xjobs.append({"id": i, "dir": os.path.join(wd, "x-drv-%03d" % i), "args": args, "version": "1.2.3", "buildinfo": "verif c10", "out": outp})
    pool = core.DriverPool()
    try:
        xres = pool.run_all(xjobs)
    finally:
        pool.close()
    xtraces, xown = [], []
    for (label, y, xargs, outp), j, res in zip(extra, xjobs, xres):
        case = {"scenario": label, "args": j["args"], "input_head": y[:300]}
        if res["exit"] not in (0, 1):
            v.disagree("abnormal-exit", case, {"exit": res["exit"], "panic": res.get("panic", "")[:600]})
            continue
        pre, post = res["pre"], res["post"]
        same = (post.get("kind"), post.get("sha")) == (pre.get("kind"), pre.get("sha"))
        outstate = ("new" if post.get("kind") == "file" and not same else "other") if res["exit"] == 0 else ("pre" if same else "other")
        sc = {"pats": ["good1"], "defects": [], "quiet": False, "stub": "--stub" in j["args"], "ignoreP": "--ignore-missing-params" in j["args"],
              "ignoreS": "--ignore-missing-services" in j["args"], "outpre": "file" if outp == "out.go" else "absent", "free": True}
        xtraces.append(events_of(sc, res, outstate))
        xown.append((case, res))
        p = subprocess.run([tool, "build"] + j["args"], cwd=j["dir"].replace("x-drv-", "x-proc-"), stdout=subprocess.PIPE, stderr=subprocess.PIPE, timeout=120)
        n_proc += 1
        if p.returncode != res["exit"]:
            v.disagree("process-exit-status", case, {"in_process": res["exit"], "process": p.returncode, "stdout_tail": p.stdout.decode("utf8", "replace")[-300:]})
        elif p.stdout.decode("utf8", "replace") != res["stdout"]:
            v.disagree("process-and-in-process-reports-differ", case, {"process": p.stdout.decode("utf8", "replace")[-400:], "in_process": res["stdout"][-400:]})
    for _ in range(10):
        if not xtraces:
            break
        ok, bad, tr = validate_traces(xtraces)
        if ok:
            break
        case, res = xown[bad]
        v.disagree("execution-is-not-a-behaviour-of-Pipeline", case, {"trace": xtraces[bad][-6:], "stdout_tail": res["stdout"][-500:]})
        del xtraces[bad], xown[bad]
    traces += xtraces
    shutil.rmtree(wd, ignore_errors=True)
    if n_ok == 0 or n_fail == 0 or len(classes) < 8:
        raise core.InfraError("degenerate exploration ok=%d fail=%d classes=%d" % (n_ok, n_fail, len(classes)))
    rc = v.finish(tier, t0)
    core.write_evidence(pid, tier, "fault_enumeration", {
        "evaluations": len(cases) + n_proc, "distinct_nontrivial": n_fail,
        "rule": "scenarios = (outcome per -i pattern) x (set of configuration defect classes) x flags x (state of the -o path), "
                "enumerated by TLC from MC_Pipeline (%s family); each realised in a private directory and run on the tool built "
                "from /repo; non-trivial = the specification expects a failure (some fault or defect injected)" % tier,
        "samples": [{"scenario": cases[len(cases) // 3]["sc"], "expected": cases[len(cases) // 3]["exp"],
                     "args": metas[len(cases) // 3]["args"]},
                    {"trace": traces[len(traces) // 2]}],
        "states": r.states, "transitions": r.generated, "traces_validated_against_impl": len(traces),
        "trace_events": sum(len(t) for t in traces), "real_process_runs": n_proc,
        "expected_success": n_ok, "expected_failure": n_fail,
        "distinct_(failing step, -o state)_classes": len(classes), "exhaustive": True,
        "design_invariants_checked_by_tlc": ["ExitIff", "Untouched", "ExitRange", "CountMatch", "OneFailLast", "InOrder",
                                             "WriteLast", "RulesAllRun"],
        "tlaps": {"module": "PipelineProofs.tla", "theorem": "Contract is inductive for every scenario and error bound; Contract => ExitIff /\\ Untouched /\\ WriteLast",
                  "obligations": obligations, "discharged": obligations},
        "known_findings_hit": {k: n for k, (f, n) in v.known_hit.items()},
    }, time.time() - t0, violations=len(v.violations),
        assumptions=["faults that cannot be injected as root (EACCES, short writes) are not explored; ENOSPC only through /dev/full",
                     "not-gofmt-able function arguments combined with --stub are outside the documented input contract and not enumerated",
                     "the number of errors a failing step reports is not predicted by the specification, only that the list has that length"])
    return rc
