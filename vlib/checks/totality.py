"""C12: total on arbitrary input (no panic, no hang), exit status 0 or 1, output-file contract.

The configuration is unconstrained, so the specification contributes the PROTOCOL: whatever the bytes, the
observed execution must be a complete behaviour of Pipeline.tla with a free environment (a prefix of
successful steps, at most one failing step whose count equals the length of the error list, exit 0 iff the
output was written, output untouched otherwise). Every execution is reduced to its signature and one trace per
distinct signature is validated by TLC (Trace_Pipeline); panics, crashes, hangs have no exit event and are
violations by themselves. Inputs: (a) node-kind confusions enumerated by TLC (MC_Confusion: position x kind,
singly and in pairs), (b) deep nesting / very long names / many cycles, (c) seeded blind mutation of a corpus
of valid and invalid configurations, arbitrary glob patterns and flag combinations."""
import copy
import json
import os
import random
import shutil
import time

from .. import core, concretise
from . import pipeline, grammar

BASE_DOC = {
    "version": "1.0.0",
    "meta": {"pkg": "main", "container_type": "C", "container_constructor": "NewC", "default_must_getter": True,
             "imports": {"fx": "probe.test/fx"}, "functions": {"fn": "fx.Fn"}},
    "parameters": {"p1": 5, "p2": "%p1%-x"},
    "services": {"s1": {"getter": "GetS1", "must_getter": True, "type": "*fx.T", "value": None, "constructor": "fx.NewA",
                        "arguments": ["%p2%", "@s2"], "calls": [["SetX", ["%p1%"], False]], "fields": {"F1": 1},
                        "tags": ["t1", {"name": "t2", "priority": 5}], "scope": "shared", "todo": False},
                 "s2": {"constructor": "fx.NewB"}},
    "decorators": [{"tag": "t1", "decorator": "fx.Decorate", "arguments": ["@s2"]}],
}

KIND_YAML = {
    "str": '"x"', "int": "5", "negint": "-7", "bool": "true", "float": "1.5", "null": "~", "emptyseq": "[]", "seq": "[1, a]",
    "emptymap": "{}", "map": "{a: b}", "nested": "[[{a: [1]}]]", "alias": "*anc", "tagbinary": "!!binary aGk=", "tagset": "!!set {a, b}",
    "timestamp": "2001-12-14", "bigint": "123456789012345678901234567890", "inf": ".inf", "mergekey": "{<<: *ancmap, z: 1}",
    "tagstr": "!!str 5", "taggedcustom": "!value x", "emptystr": '""', "multiline": '"a\\nb"', "pct": '"%"', "at": '"@"',
}


def positions(doc, path=()):
    """every node of the base document: its path"""
    out = [path]
    if isinstance(doc, dict):
        for k, v in doc.items():
            out += positions(v, path + (k,))
    elif isinstance(doc, list):
        for i, v in enumerate(doc):
            out += positions(v, path + (i,))
    return out


def expected_kind(doc, path):
    d = doc
    for p_ in path:
        d = d[p_]
    # positions whose documented shape admits several node kinds
    if len(path) >= 3 and path[-2] == "tags":
        return "any" if isinstance(d, (str, dict)) else "scalar"          # a tag is a string or a mapping
    if isinstance(d, dict):
        return "map"
    if isinstance(d, list):
        return "seq"
    return "scalar"


def positions_module():
    ps = positions(BASE_DOC)
    kinds = ["any" if not p_ else expected_kind(BASE_DOC, p_) for p_ in ps]
    kinds[0] = "map"
    return ("---- MODULE ConfusionPositions ----\nExpectedKinds == <<%s>>\n====\n" % ", ".join('"%s"' % k for k in kinds))


def confusion_cases(tier):
    r = core.run_tlc("MC_Confusion.tla", "MC_Confusion_%s.cfg" % tier, timeout=1800, extra_files={"ConfusionPositions.tla": positions_module()})
    if r.violation:
        raise core.InfraError("TLC error in MC_Confusion:\n" + r.raw_tail[-1500:])
    return r


def set_path(doc, path, value):
    if not path:
        return value
    d = doc
    for p in path[:-1]:
        d = d[p]
    d[path[-1]] = value
    return doc


def confusion_yaml(subs, rng):
    doc = copy.deepcopy(BASE_DOC)
    for path, kind in subs:
        try:
            doc = set_path(doc, path, concretise.Raw(KIND_YAML[kind]))
        except (KeyError, IndexError, TypeError):
            pass
    body = concretise.emit(doc, None, flow=True) if isinstance(doc, concretise.Raw) else concretise.emit(doc, None)
    return "anchors: [&anc x, &ancmap {q: 1}]\n" + body + "\n"


MUT_TOKENS = ["%", "%%", "@", "!value ", "!tagged ", "$gontainer", "&a ", "*a", "<<: ", "- ", "? ", ": ", "{", "}", "[", "]", "\t", "\n", "\x00",
              "\xff", "~", "|", ">", "'", '"', "#", "!!binary ", "!!float ", "0x", "1e999", "\\", "é", "😀", "--- ", "...", "%todo()%", "%env(",
              "null", "true", "9223372036854775808", "-", ".", "..", "a" * 300]


def mutate(data, rng):
    b = bytearray(data)
    for _ in range(rng.choice([1, 1, 2, 3, 5])):
        op = rng.randrange(9)
        pos = rng.randrange(len(b) + 1) if b else 0
        if op == 0 and b:
            b[rng.randrange(len(b))] = rng.randrange(256)
        elif op == 1 and b:
            del b[pos - 1:pos - 1 + rng.choice([1, 1, 2, 8, 40])]
        elif op == 2:
            b[pos:pos] = rng.choice(MUT_TOKENS).encode("utf8", "surrogatepass")
        elif op == 3 and b:
            a = rng.randrange(len(b))
            c = min(len(b), a + rng.choice([1, 5, 30]))
            b[pos:pos] = b[a:c] * rng.choice([1, 2, 50])
        elif op == 4 and b:
            lines = bytes(b).split(b"\n")
            i = rng.randrange(len(lines))
            lines[i] = rng.choice([b"  ", b"", b"    ", b"- "]) + lines[i].lstrip()
            b = bytearray(b"\n".join(lines))
        elif op == 5 and b:
            lines = bytes(b).split(b"\n")
            i, j = rng.randrange(len(lines)), rng.randrange(len(lines))
            lines[i], lines[j] = lines[j], lines[i]
            b = bytearray(b"\n".join(lines))
        elif op == 6 and b:
            b = b[:pos]
        elif op == 8 and b:
            b = bytearray(bytes(b).replace(b"\n", rng.choice([b"\r", b"\r\n", "\u2028".encode(), "\u0085".encode(), "\u2029".encode()]),
                                           rng.choice([-1, 1, 3])))
        else:
            b[pos:pos] = bytes([rng.randrange(256) for _ in range(rng.choice([1, 3, 10]))])
    return bytes(b)


PATTERNS = ["in.yaml", "*.yaml", "[", "**", "*/../*.yaml", "\\", "{a,b}.yaml", "in.yaml/", "./in.yaml", "?n.yaml", "[a-", "in.yaml\x00", "x" * 5000,
            "", "/", ".", "nonexistent/*.yaml", "*"]


def signature(sc, res, outstate):
    rep = core.Report(res["stdout"])
    steps = tuple((s["name"], s["depth"], s["status"], min(s["count"], 3)) for s in rep.steps)
    return (sc["quiet"], sc["ignoreP"], sc["ignoreS"], steps, rep.has_errors_header, min(len(rep.errors), 3) if rep.has_errors_header else -1,
            len(rep.errors) == (rep.failing_top() or {}).get("count", -2) if rep.has_errors_header else True,
            res["exit"], res["stdout"] != "", outstate)


def run_c12(tier):
    pid = "C12"
    t0 = time.time()
    rng = random.Random(core.seed())
    v = core.Verdict(pid)
    wd = core.subdir("c12")
    budget = 25000 if tier == "quick" else 400000
    # ---- (a) node-kind confusions from TLC
    r = confusion_cases(tier)
    pos_list = positions(BASE_DOC)
    inputs = []          # (label, [file bytes], patterns, flags)
    for c in r.emitted:
        subs = [(pos_list[s["p"] - 1], s["k"]) for s in c["subs"] if s["p"] <= len(pos_list)]
        inputs.append(("confusion", [confusion_yaml(subs, rng).encode()], None, {}))
    n_conf = len(inputs)
    # ---- (b) size / depth / cycles
    for n in (10, 100, 1500):
        inputs.append(("deep-seq", [("parameters:\n  p: " + "[" * n + "]" * n + "\n").encode()], None, {}))
        inputs.append(("deep-map", [("parameters:\n  p: " + "{a: " * n + "1" + "}" * n + "\n").encode()], None, {}))
        inputs.append(("long-name", [("services:\n  %s: {constructor: NewA}\nparameters:\n  %s: 1\n" % ("s" * n * 30, "p" * n * 30)).encode()], None, {}))
        inputs.append(("long-pattern", [("parameters:\n  p: \"%s\"\n" % ("%a%" * n * 3)).encode()], None, {}))
        inputs.append(("long-unclosed", [("parameters:\n  p: \"%s\"\n" % ("%%" * n * 3 + "%")).encode()], None, {}))
    for n in (3, 6, 9):      # complete digraphs: many cycles, bounded
        svcs = "\n".join("  s%d: {constructor: NewA, arguments: [%s], scope: shared}" % (i, ", ".join('"@s%d"' % j for j in range(n))) for i in range(n))
        inputs.append(("many-cycles", [("services:\n" + svcs + "\n").encode()], None, {}))
        pars = "\n".join("  p%d: \"%s\"" % (i, "".join("%%p%d%%" % j for j in range(n))) for i in range(n))
        inputs.append(("many-param-cycles", [("parameters:\n" + pars + "\n").encode()], None, {}))
    # ---- (b2) line-break styles (YAML also breaks lines at CR, NEL, LS, PS) with and without syntax errors; byte-order marks
    broken = ["services:\n  a:\n    constructor: NewA\n   bad: [1, 2\n  b: {\n", "parameters:\n  p: 'x\n  q: 1\nservices:\n\t- 1\n",
              "parameters:\n  # comment\n  p: \"abc\n\n\n\n  q: ]\n", pipeline.BASE, pipeline.BASE + "  zz: [\n"]
    for txt in broken:
        for nl in ("\r", "\r\n", "\u0085", "\u2028", "\u2029", "\n\r"):
            inputs.append(("line-breaks", [txt.replace("\n", nl).encode()], None, {}))
            inputs.append(("line-breaks", [("# a" + nl + "# b" + nl + "# c" + nl + txt).encode()], None, {}))
            inputs.append(("line-breaks", [txt.replace("p:", "p: \"" + nl * 7 + "\"\n  r:", 1).encode()], None, {}))
        for enc in ("utf-8-sig", "utf-16", "utf-16-le", "utf-16-be", "utf-32"):
            inputs.append(("encodings", [txt.encode(enc)], None, {}))
    # ---- (b3) aliases defined through themselves or each other, used in every position an import path can occur
    loops = [{"app": "app/internal"}, {"log": "log"}, {"core": "util/core", "util": "core/util"}, {"a": "a"}, {"a": "b", "b": "a"},
             {"a": "a/a/a"}, {"x": "x/../x"}, {"a": "b/c", "b": "c/a", "c": "a/b"}]
    for al in loops:
        k = sorted(al)[0]
        for use in ({"services": {"s": {"constructor": k + "/p.New"}}}, {"services": {"s": {"type": "*" + k + ".T"}}},
                    {"services": {"s": {"value": k + "/q.V"}}}, {"services": {"s": {"constructor": "NewA", "fields": {"F": "!value " + k + ".V"}}}},
                    {"services": {"s": {"constructor": "NewA", "tags": ["t"]}}, "decorators": [{"tag": "t", "decorator": k + ".D"}]},
                    {"meta": {"functions": {"f": k + ".F"}}}):
            doc = {"meta": {"imports": dict(al)}}
            for kk, vv in use.items():
                if kk == "meta":
                    doc["meta"].update(vv)
                else:
                    doc[kk] = vv
            inputs.append(("alias-loops", [concretise.emit(doc, None).encode() + b"\n"], None, {}))
    # ---- (b4) many files per pattern; long file and pattern names in scripts whose characters take several bytes
    for nfiles in (17, 40, 300):
        inputs.append(("many-files", [("parameters: {k%d: %d}\n" % (q, q)).encode() for q in range(nfiles)], ["in*.yaml"], {}))
        inputs.append(("many-files", [b"services: [\n" if q % 7 == 3 else ("parameters: {k%d: %d}\n" % (q, q)).encode() for q in range(nfiles)], ["in*.yaml", "in1?.yaml"], {}))
    for stem in ("\u043a\u043e\u043d\u0444\u0438\u0433\u0443\u0440\u0430\u0446\u0438\u044f-\u043a\u043e\u043d\u0442\u0435\u0439\u043d\u0435\u0440\u0430-\u0441\u0435\u0440\u0432\u0438\u0441\u043e\u0432", "\u8a2d\u5b9a" * 12, "\U0001F600" * 14, "a\u0301" * 30, "x" * 120,
                 "\u043a" * 24, "\u043a" * 26, "\u8a2d" * 16, "\u8a2d" * 17):
        inputs.append(("long-names", [pipeline.BASE.encode()], ["_NAME_"], {"_name": stem + ".yaml"}))
        inputs.append(("long-names", [pipeline.BASE.encode()], ["_GLOB_"], {"_name": stem + ".yaml"}))
        inputs.append(("long-names", [b"services: [\n"], ["_NAME_", "_GLOB_"], {"_name": stem + ".yaml"}))
    # ---- (b') odd directory entries matched by the patterns
    for odd in ("dangling", "selfloop", "dir", "linktodir", "linktofile", "big", "empty", "nul", "several"):
        for pat in ("*.yaml", "odd.yaml", "*", "o??.yaml"):
            inputs.append(("fs-" + odd, [pipeline.BASE.encode()], ["in.yaml", pat] if odd != "several" else [pat, "*.yaml"], {"_odd": odd}))
    # ---- (c) blind mutation of a corpus
    corpus = [concretise.emit(BASE_DOC, None).encode() + b"\n", pipeline.BASE.encode(), b"", b"{}", b"[]", b"~", b"services: {}\n"]
    doc = grammar.base_doc()
    for k in sorted(grammar.DEFECTS):
        grammar.DEFECTS[k][0](doc)
    corpus.append(concretise.emit(doc, None).encode())
    for y in pipeline.DEFECT_YAML.values():
        corpus.append((pipeline.BASE + y).encode())
    for ent in sorted(os.listdir(os.path.join(core.REPO, "internal", "gontainer"))):
        if ent.endswith(".yaml"):
            corpus.append(open(os.path.join(core.REPO, "internal", "gontainer", ent), "rb").read())
    tdir = os.path.join(core.REPO, "internal", "cmd", "testdata")
    if os.path.isdir(tdir):
        for ent in sorted(os.listdir(tdir)):
            if ent.endswith(".yaml"):
                corpus.append(open(os.path.join(tdir, ent), "rb").read())
    while len(inputs) < budget:
        nfiles = rng.choice([1, 1, 1, 2, 3])
        files = [mutate(rng.choice(corpus), rng) for _ in range(nfiles)]
        pats = None
        if rng.random() < 0.15:
            pats = [rng.choice(PATTERNS) for _ in range(rng.choice([1, 2]))]
        flags = {"quiet": rng.random() < 0.1, "stub": rng.random() < 0.2, "ignoreP": rng.random() < 0.2, "ignoreS": rng.random() < 0.2}
        inputs.append(("mutation", files, pats, flags))
    # ---- run
    jobs, metas = [], []
    for i, (label, files, pats, flags) in enumerate(inputs):
        d = os.path.join(wd, "x%06d" % i)
        os.makedirs(d)
        names = []
        special = (flags or {}).pop("_name", None) if flags else None
        for k, data in enumerate(files):
            nm = "in.yaml" if k == 0 else "in%d.yaml" % k
            if special and k == 0:
                nm = special
                pats = [nm if p_ == "_NAME_" else ("*" + nm[len(nm) // 2:] if p_ == "_GLOB_" else p_) for p_ in (pats or [])]
            with open(os.path.join(d, nm), "wb") as f:
                f.write(data)
            names.append(nm)
        odd = (flags or {}).pop("_odd", None) if flags else None
        if odd:
            o = os.path.join(d, "odd.yaml")
            if odd == "dangling":
                os.symlink("nowhere-at-all", o)
            elif odd == "selfloop":
                os.symlink("odd.yaml", o)
            elif odd == "dir":
                os.makedirs(o)
            elif odd == "linktodir":
                os.makedirs(os.path.join(d, "adir"))
                os.symlink("adir", o)
            elif odd == "linktofile":
                os.symlink("in.yaml", o)
            elif odd == "big":
                with open(o, "wb") as f:
                    f.write(b"parameters:\n" + b"".join(b"  k%d: %d\n" % (q, q) for q in range(4000)))
            elif odd == "empty":
                open(o, "wb").close()
            elif odd == "nul":
                with open(o, "wb") as f:
                    f.write(b"\x00" * 100)
            elif odd == "several":
                os.symlink("nowhere", o)
                os.symlink("odd.yaml", os.path.join(d, ".#lock.yaml"))
                os.makedirs(os.path.join(d, "zz.yaml"))
        args = []
        for p in (pats or names):
            args += ["-i", p]
        pre_exists = rng.random() < 0.5
        if pre_exists:
            with open(os.path.join(d, "out.go"), "w") as f:
                f.write("// old\n" * 3000)
        args += ["-o", "out.go"]
        fl = {"quiet": False, "stub": False, "ignoreP": False, "ignoreS": False}
        fl.update(flags or {})
        for k, a in (("quiet", "--quiet"), ("stub", "--stub"), ("ignoreP", "--ignore-missing-params"), ("ignoreS", "--ignore-missing-services")):
            if fl[k]:
                args.append(a)
        jobs.append({"id": i, "dir": d, "args": args, "version": rng.choice(["dev-main", "1.0.0", "0.3.1"]), "buildinfo": "verif", "out": "out.go",
                     "timeout_ms": 120000})
        metas.append({"label": label, "flags": fl, "pre": "file" if pre_exists else "absent"})
    pool = core.DriverPool()
    try:
        results = pool.run_all(jobs)
    finally:
        pool.close()
    sigs = {}
    classes = {}
    slow = 0
    for j, m, res in zip(jobs, metas, results):
        classes[m["label"]] = classes.get(m["label"], 0) + 1
        case = {"label": m["label"], "args": j["args"], "dir_files": {}}
        if res["exit"] not in (0, 1):
            for nm in sorted(os.listdir(j["dir"]))[:4]:
                try:
                    case["dir_files"][nm] = open(os.path.join(j["dir"], nm), "rb").read()[:3000].decode("utf8", "replace")
                except OSError:
                    pass
            kind = {2: "panic", 3: "hang (120 s watchdog)", 5: "process died (fatal error / os.Exit)"}.get(res["exit"], "abnormal exit %s" % res["exit"])
            v.disagree(kind, case, {"panic": res.get("panic", "")[:700]}, tags={"label": m["label"]})
            continue
        if res.get("ms", 0) > 10000:
            slow += 1
        pre, post = res["pre"], res["post"]
        if res["exit"] == 0:
            outstate = "new" if post.get("kind") == "file" and post.get("sha") != pre.get("sha") else ("new" if post.get("kind") == "file" and pre.get("kind") != "file" else "other")
            if post.get("kind") == "file" and pre.get("kind") == "file" and post.get("sha") == pre.get("sha"):
                outstate = "other"
        else:
            outstate = "pre" if (post.get("kind"), post.get("sha")) == (pre.get("kind"), pre.get("sha")) else "other"
        sc = {"pats": ["good1"], "defects": [], "quiet": m["flags"]["quiet"], "stub": m["flags"]["stub"], "ignoreP": m["flags"]["ignoreP"],
              "ignoreS": m["flags"]["ignoreS"], "outpre": m["pre"], "free": True}
        sg = signature(sc, res, outstate)
        if sg not in sigs:
            sigs[sg] = (sc, res, outstate, j, m)
    # ---- R3: one trace per distinct signature
    traces, owners = [], []
    for sg, (sc, res, outstate, j, m) in sorted(sigs.items(), key=lambda x: repr(x[0])):
        traces.append(pipeline.events_of(sc, res, outstate))
        owners.append((j, m, res))
    remaining = list(range(len(traces)))
    n_valid = 0
    for _ in range(30):
        ok, bad, tr = pipeline.validate_traces([traces[i] for i in remaining])
        if ok:
            n_valid = len(remaining)
            break
        j, m, res = owners[remaining[bad]]
        case = {"label": m["label"], "args": j["args"]}
        try:
            case["input"] = open(os.path.join(j["dir"], "in.yaml"), "rb").read()[:3000].decode("utf8", "replace")
        except OSError:
            pass
        v.disagree("execution-is-not-a-behaviour-of-Pipeline", case, {"trace": traces[remaining[bad]], "stdout_tail": res["stdout"][-600:]},
                   tags={"label": m["label"]})
        del remaining[bad]
    shutil.rmtree(wd, ignore_errors=True)
    rc = v.finish(tier, t0)
    ex = [traces[i] for i in range(min(2, len(traces)))]
    core.write_evidence(pid, tier, "exploration", {
        "evaluations": len(inputs), "distinct_nontrivial": len(sigs),
        "rule": "inputs = %d node-kind confusions enumerated by TLC (every node of a complete base document x %d YAML node kinds, singly and a "
                "seeded set of pairs) + size/depth/cycle stress + seeded blind mutation (byte and token level) of a corpus of valid and invalid "
                "configurations incl. the repository's own, with arbitrary glob patterns and flag combinations; each run in-process with recover() "
                "and a 120 s watchdog over a pre-existing or absent -o file; distinct_nontrivial = distinct execution signatures (step sequence, "
                "statuses, capped counts, exit, file effect), each validated by TLC as a behaviour of Pipeline.tla with a free environment" % (n_conf, len(KIND_YAML)),
        "samples": ex, "states": r.states, "traces_validated_against_impl": n_valid,
        "inputs_by_class": classes, "runs_slower_than_10s": slow,
        "known_findings_hit": {k: n for k, (f, n) in v.known_hit.items()},
    }, time.time() - t0, violations=len(v.violations), assumptions=[
        "no coverage guidance: exploration is model-directed (confusions) plus blind seeded mutation; absence of panics is not proved",
        "a dependency graph with very many elementary cycles makes cycle enumeration exponential by design; stress inputs stay below 9 nodes"])
    return rc
