"""Builds and drives the probe: one Go program linking many generated containers with the
fixture universe, interpreting operation scripts and printing observations (harness/probe)."""
import json
import os
import queue
import re
import shutil
import subprocess
import threading

from . import core

SRC = os.path.join(core.VERIF, "harness", "probe")


def probe_env():
    """Generated packages are different in every run: building them through the shared Go build cache makes it grow without
    bound (136 GB were reached). Probe builds use a cache of their own inside the run's scratch directory (a cold build of the
    fixture universe and the runtime costs about 12 s, 16 s more with -race)."""
    env = dict(core.GOENV)
    env["GOCACHE"] = core.subdir("gocache")
    return env


def helpers_version():
    txt = open(os.path.join(core.REPO, "go.mod")).read()
    m = re.search(r"github.com/gontainer/gontainer-helpers/v3\s+(\S+)", txt)
    if not m:
        raise core.InfraError("cannot find the gontainer-helpers version in /repo/go.mod")
    return m.group(1)


def fixture_source(pkgname, pkgid, types_only=False):
    t = open(os.path.join(SRC, "fxtpl", "fx_types.go.tpl" if types_only else "fx.go.tpl")).read()
    return t.replace("__PKG__", pkgname).replace("__PKGID__", pkgid).replace("__SUFFIX__", "")


CTORS = ["NewA", "NewB", "NewC", "NewD", "NewZ", "NewE", "NewV"]


class Probe:
    """work/ : go.mod (module probe.test), objmod/ (module obj.test), rt/, fx/ (probe.test/fx),
    ext/<n>/ (fixture modules at foreign import paths), g<id>/ (generated packages), main.go"""

    INNER = ("probe.test/fx", "probe.test/fy", "probe.test/p", "probe.test/pq", "probe.test/p/q", "probe.test/x/p", "probe.test/we-ird.v2", "probe.test/x/p/p")
    EXT = (("a.test", "a.test/p"), ("a.test", "a.test/p/q"), ("ab.test", "ab.test/p"))

    def __init__(self, name="probe", ext_paths=EXT, inner_paths=INNER, types_only=False):
        self.types_only = types_only
        self.dir = core.subdir(name)
        if os.listdir(self.dir):
            shutil.rmtree(self.dir)
            os.makedirs(self.dir)
        self.pkgs = {}          # name -> dict(ctor, stub)
        self.failed = {}        # name -> compiler output
        hv = helpers_version()
        os.makedirs(os.path.join(self.dir, "objmod", "obj"))
        shutil.copy(os.path.join(SRC, "obj", "obj.go"), os.path.join(self.dir, "objmod", "obj", "obj.go"))
        with open(os.path.join(self.dir, "objmod", "go.mod"), "w") as f:
            f.write("module obj.test\n\ngo 1.21\n")
        os.makedirs(os.path.join(self.dir, "rt"))
        shutil.copy(os.path.join(SRC, "rt", "rt.go"), os.path.join(self.dir, "rt", "rt.go"))
        for p in (os.path.join(self.dir, "rt", "rt.go"),):
            s = open(p).read().replace('"probe.test/obj"', '"obj.test/obj"')
            open(p, "w").write(s)
        req = ["github.com/gontainer/gontainer-helpers/v3 %s" % hv, "obj.test v0.0.0"]
        rep = ["obj.test => ./objmod"]
        for ip in inner_paths:
            assert ip.startswith("probe.test/")
            d = os.path.join(self.dir, ip[len("probe.test/"):])
            os.makedirs(d, exist_ok=True)
            with open(os.path.join(d, "fx.go"), "w") as f:
                f.write(fixture_source(re.sub(r"[^A-Za-z0-9_]", "_", ip.split("/")[-1]), ip, types_only).replace('"probe.test/obj"', '"obj.test/obj"'))
        modidx = {}
        for (modpath, pkgpath) in ext_paths:
            # module `modpath` providing package `pkgpath` (modpath is a prefix of pkgpath)
            i = modidx.setdefault(modpath, len(modidx))
            md = os.path.join(self.dir, "ext", "m%d" % i)
            sub = pkgpath[len(modpath):].lstrip("/")
            os.makedirs(os.path.join(md, sub), exist_ok=True)
            if not os.path.exists(os.path.join(md, "go.mod")):
                with open(os.path.join(md, "go.mod"), "w") as f:
                    f.write("module %s\n\ngo 1.21\n\nrequire (\n\tgithub.com/gontainer/gontainer-helpers/v3 %s\n\tobj.test v0.0.0\n)\n" % (modpath, hv))
                req.append("%s v0.0.0" % modpath)
                rep.append("%s => ./ext/m%d" % (modpath, i))
            with open(os.path.join(md, sub, "fx.go"), "w") as f:
                f.write(fixture_source(re.sub(r"[^A-Za-z0-9_]", "_", pkgpath.split("/")[-1]), pkgpath, types_only).replace('"probe.test/obj"', '"obj.test/obj"'))
        with open(os.path.join(self.dir, "go.mod"), "w") as f:
            f.write("module probe.test\n\ngo 1.21\n\nrequire (\n%s\n)\n\nreplace (\n%s\n)\n" %
                    ("\n".join("\t" + r for r in req), "\n".join("\t" + r for r in rep)))
        shutil.copy(os.path.join(core.REPO, "go.sum"), os.path.join(self.dir, "go.sum"))

    # ------------------------------------------------------------------ packages
    def add(self, name, source, ctor="NewGontainer", stub=False, with_local=True, ctype="Gontainer"):
        d = os.path.join(self.dir, name)
        os.makedirs(d, exist_ok=True)
        src = source
        # the generated file declares its own package name (meta.pkg); rename it to the directory's
        m = re.search(r"(?m)^package (\S+)$", src)
        declared = m.group(1) if m else None
        pkg = name
        if m:       # a package can only be imported under its directory's name: rewrite the clause (and remember it)
            src = src[:m.start()] + "package " + name + src[m.end():]
        with open(os.path.join(d, "gontainer.go"), "w") as f:
            f.write(src)
        if with_local:
            with open(os.path.join(d, "local.go"), "w") as f:
                f.write(fixture_source(pkg, ".", self.types_only).replace('"probe.test/obj"', '"obj.test/obj"'))
        if stub:
            with open(os.path.join(d, "reg.go"), "w") as f:
                f.write('//go:build gontainerstub\n\npackage %s\n\nimport (\n\t"reflect"\n\n\t"probe.test/rt"\n)\n\nfunc init() {\n'
                        '\trt.RegisterStub("%s", reflect.TypeOf((*%s)(nil)), func() any { return %s() })\n}\n' % (pkg, name, ctype, ctor))
        if not stub:
            ctors = "\n".join('\t\t"%s": %s,' % (c, c) for c in CTORS) if with_local else ""
            with open(os.path.join(d, "reg.go"), "w") as f:
                f.write('package %s\n\nimport "probe.test/rt"\n\nfunc init() {\n\trt.Register("%s", func() rt.C { return %s() }, map[string]any{\n%s\n\t})\n}\n'
                        % (pkg, name, ctor, ctors))
        self.pkgs[name] = {"ctor": ctor, "stub": stub, "pkg": pkg, "declared_pkg": declared}

    # ------------------------------------------------------------------ build
    def _parse_failures(self, text):
        found = {}
        cur = None
        for line in text.split("\n"):
            m = re.match(r"^# probe\.test/(\S+)", line)
            if m:
                cur = m.group(1).split("/")[0]
                continue
            m2 = re.match(r"^(?:\./)?([A-Za-z]\w*)/[^:\s]+\.go:\d+", line)
            if m2 and m2.group(1) in self.pkgs:       # errors reported without a package header (e.g. unresolvable imports)
                found.setdefault(m2.group(1), []).append(line)
                continue
            if cur is not None and line.strip() and cur in self.pkgs:
                found.setdefault(cur, []).append(line)
        return found

    def build(self, race=False, tags=None):
        """Compile every package (failures are recorded per package and set aside), then link the good ones."""
        self.failed = {}
        out = os.path.join(self.dir, "probe.bin")
        # pass 1: unresolvable imports (go build stops at the first few; go list -e reports all)
        penv = probe_env()
        p = core.sh(["go", "list", "-e"] + (["-tags", tags] if tags else []) +
                    ["-f", "{{.ImportPath}}\t{{if .Error}}{{.Error.Err}}{{end}}\t{{range .DepsErrors}}{{.Err}};{{end}}", "./..."],
                    cwd=self.dir, check=False, timeout=3600, env=penv)
        for line in p.stdout.split("\n"):
            parts = line.split("\t")
            if len(parts) == 3 and parts[0].startswith("probe.test/") and (parts[1].strip() or parts[2].strip()):
                n = parts[0][len("probe.test/"):].split("/")[0]
                if n in self.pkgs:
                    self.failed[n] = [(parts[1] + " " + parts[2]).strip()[:500]]
        for n in self.failed:
            shutil.move(os.path.join(self.dir, n), os.path.join(self.dir, "_failed_" + n))
        # pass 2: type errors (go build reports every failing package)
        p = core.sh(["go", "build"] + (["-tags", tags] if tags else []) + ["./..."], cwd=self.dir, check=False, timeout=3600, env=penv)
        if p.returncode != 0:
            found = self._parse_failures(p.stdout)
            if not found:
                raise core.InfraError("probe infrastructure does not compile:\n" + p.stdout[-3000:])
            for n, msg in found.items():
                if n not in self.failed:
                    self.failed[n] = msg
                    shutil.move(os.path.join(self.dir, n), os.path.join(self.dir, "_failed_" + n))
        for attempt in range(10):
            good = [n for n in sorted(self.pkgs) if n not in self.failed]
            with open(os.path.join(self.dir, "main.go"), "w") as f:
                f.write("package main\n\nimport (\n\t\"probe.test/rt\"\n%s\n)\n\nfunc main() { rt.Main() }\n" %
                        "\n".join('\t_ "probe.test/%s"' % n for n in good))
            cmd = ["go", "build"] + (["-race"] if race else []) + (["-tags", tags] if tags else []) + ["-o", out, "."]
            p = core.sh(cmd, cwd=self.dir, check=False, timeout=3600, env=penv)
            if p.returncode == 0:
                self.bin = out
                return good
            found = self._parse_failures(p.stdout)
            new = {k: v for k, v in found.items() if k not in self.failed}
            if not new:
                raise core.InfraError("probe infrastructure does not compile:\n" + p.stdout[-3000:])
            for n, msg in new.items():
                self.failed[n] = msg
                shutil.move(os.path.join(self.dir, n), os.path.join(self.dir, "_failed_" + n))
        raise core.InfraError("probe build does not converge")

    # ------------------------------------------------------------------ run
    def run(self, scripts, procs=None, env=None):
        """scripts: list of dict(id, pkg, ops). Returns dict id -> result."""
        procs = procs or core.NCPU
        q = queue.Queue()
        for s in scripts:
            q.put(s)
        results = {}
        lock = threading.Lock()

        def worker():
            p = None
            while True:
                try:
                    s = q.get_nowait()
                except queue.Empty:
                    break
                if p is None or p.poll() is not None:
                    penv = dict(env or os.environ)
                    for k in [k for k in penv if k.startswith("VERIF_UNSET")]:
                        del penv[k]
                    p = subprocess.Popen([self.bin], stdin=subprocess.PIPE, stdout=subprocess.PIPE,
                                         stderr=subprocess.PIPE, text=True, bufsize=1, env=penv)
                try:
                    p.stdin.write(json.dumps(s) + "\n")
                    p.stdin.flush()
                    line = p.stdout.readline()
                except (BrokenPipeError, OSError):
                    line = ""
                if not line:
                    rc = p.wait()
                    full = p.stderr.read() if p.stderr else ""
                    i = full.find("WARNING: DATA RACE")
                    err = full[i:i + 2500] if i >= 0 else full[-2000:]
                    r = {"id": s["id"], "pkg": s["pkg"], "crashed": rc, "stderr": err}
                    p = None
                else:
                    r = json.loads(line)
                    if r.get("timeout"):
                        p.wait()
                        p = None
                with lock:
                    results[s["id"]] = r
            if p is not None:
                try:
                    p.stdin.close()
                    p.wait(timeout=10)
                except Exception:
                    p.kill()

        ts = [threading.Thread(target=worker) for _ in range(min(procs, max(1, len(scripts))))]
        for t in ts:
            t.start()
        for t in ts:
            t.join()
        return results


# ------------------------------------------------------------------------- canonical heaps

def canon(result_terms, heap):
    """Rename object ids by first appearance over the given list of terms (depth-first), and inline
    the heap: returns the list of terms with ids replaced and a list of object bodies in canonical order."""
    ren = {}
    bodies = []

    def val(t):
        if not isinstance(t, dict):
            return t
        k = t.get("k")
        if k == "obj":
            oid = str(t["id"])
            if oid not in ren:
                ren[oid] = len(ren) + 1
                bodies.append(None)
                idx = ren[oid] - 1
                bodies[idx] = body(heap[oid])
            return {"k": "obj", "id": ren[oid]}
        if k == "objval":
            return {"k": "objval", "body": body(t["body"])}
        if k == "list":
            return {"k": "list", "items": [val(x) for x in t["items"]]}
        return {kk: vv for kk, vv in t.items()}

    def body(b):
        out = {"made": b["made"], "args": [val(x) for x in b["args"]]}
        for f in ("F1", "F2", "f3", "prev"):
            out[f] = val(b.get(f) or {"k": "nil"})
        out["log"] = [{"m": e["m"], "args": [val(x) for x in e["args"]]} for e in (b.get("log") or [])]
        p = b.get("payload")
        out["payload"] = None if not p else {"tag": p["tag"], "id": p["id"], "svc": val(p["svc"])}
        return out

    terms = [val(t) for t in result_terms]
    return terms, bodies
